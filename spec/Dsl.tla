-------------------------------- MODULE Dsl --------------------------------
(***************************************************************************)
(* C06 -- DSL 2.0 compilation preserves the dataflow and the parameter     *)
(* bindings.                                                               *)
(*                                                                         *)
(* The module is an executable *function specification* of the compiler    *)
(* experiment.model.frontends.dsl.namespace_to_flowir:                     *)
(*                                                                         *)
(*   1. a data model of a DSL 2.0 namespace (component templates, workflow *)
(*      templates, steps, execute entries, argument values as sequences    *)
(*      of tokens: literal text, parameter references %(p)s, output        *)
(*      references <a/b>..:method in their three spellings),               *)
(*   2. the semantics: Errs(ns) (what makes a namespace invalid, and where)*)
(*      and Flatten(ns) (the component instances reachable from the        *)
(*      entrypoint with their resolved arguments and their producers),     *)
(*      written declaratively as ONE recursive instantiation with          *)
(*      parameter environments -- not as the multi pass textual rewriting  *)
(*      the implementation performs,                                       *)
(*   3. a bounded family of namespaces (Build(ch), ch \in Choices): nesting*)
(*      depth <= 3, template reuse, parameters forwarded / defaulted /     *)
(*      overridden / embedded, references crossing levels in both          *)
(*      directions, adversarial step names, and single-fault mutations,    *)
(*   4. the state machine  src --Compile--> compiled | src --Reject-->     *)
(*      rejected, whose states TLC enumerates; the C06 statements are      *)
(*      invariants over (namespace, result).  Every state is emitted as    *)
(*      JSON and executed on the real compiler by harness/checks/c06.py.   *)
(*                                                                         *)
(* Strings are opaque for TLC, therefore a value is a sequence of tokens   *)
(* (rendered to text by the driver) and a step name is a string whose      *)
(* structure (stage prefix, base, literal roman suffix, trailing digit) is *)
(* given by the table Info.                                                *)
(***************************************************************************)
EXTENDS Integers, Sequences, FiniteSets, TLC, Json

CONSTANTS Depths,      \* nesting depths explored, subset of 1..3
          Reuses,      \* 0: every workflow template used once, 1: `sub` twice in main, 2: also `subsub` twice in sub
          Orders,      \* order of the execute entries: "fwd", "rev"
          Namings,     \* step naming schemes (see PName/CName)
          Spellings,   \* spelling of output references written in main (see SibRef)
          PassDowns,   \* how a reference travels down through workflow parameters (see PVal/DeepX)
          Bindings,    \* how the plain parameter of the producers is bound (see MArgs/GArgs)
          VarModes,    \* private `variables` of the producer template: "none", "priv" (a name nobody else uses),
                       \* "shadow" (called g, like the parameter g of every workflow that calls it)
          EntryModes,  \* sources of the entry point's arguments explored: subset of {"off", "on"}; "on": every combination of
                       \* entrypoint args x override (none / partial / full / empty / unknown name) x default (with / without)
          Muts,        \* single-fault mutations (see Build); "none" must not be listed here
          MutNamings,  \* naming schemes the mutations are applied to
          Full,        \* TRUE: full product of the dimensions; FALSE: Bindings vary only for the canonical spelling
          Emit         \* TRUE: print every final state as JSON for the conformance driver

VARIABLES ch,      \* the choice vector that selects the namespace of the family
          ns,      \* the namespace (input of the compiler)
          phase,   \* "src" | "compiled" | "rejected"
          out      \* result: [flat, errs]
vars == <<ch, ns, phase, out>>

---------------------------------------------------------------------------
(* 1. Tokens and values                                                    *)

Tok(k, s, segs, cut, q, m) == [k |-> k, s |-> s, segs |-> segs, cut |-> cut, q |-> q, m |-> m]
Lit(s)            == Tok("lit", s, <<>>, 0, FALSE, "")
Par(p)            == Tok("par", p, <<>>, 0, FALSE, "")       \* %(p)s
ParX(p, segs, m)  == Tok("par", p, segs, 0, FALSE, m)        \* %(p)s/segs..:m   (extends the reference held by p)
(* <s1/../s_cut>/s_cut+1/..:m  (cut = 0: everything inside the brackets);  q: "<..>"/..:m                        *)
Ref(segs, cut, q, m) == Tok("ref", "", segs, cut, q, m)
Bad(segs, m)      == Tok("bad", "", segs, 0, FALSE, m)       \* <s1/..:m>  the method inside the brackets: malformed
Sfx(segs, m)      == Tok("sfx", "", segs, 0, FALSE, m)       \* left-over text "/segs:m" (only in resolved values)
Num(s)            == Tok("num", s, <<>>, 0, FALSE, "")       \* a YAML integer (e.g. 0) -- alone it is the whole value, its text is s
Dict(s)           == Tok("dict", s, <<>>, 0, FALSE, "")      \* a YAML dictionary -- only ever the whole value of a parameter
BadDict(p)        == Tok("baddict", p, <<>>, 0, FALSE, "")   \* (resolved values only) the dictionary parameter p inside a longer string
Var(v)            == Tok("var", v, <<>>, 0, FALSE, "")       \* %(v)s of a private variable of the component: it stays in
                                                             \* the arguments, FlowIR binds it to the component's variable

(* Structure of the step names used by the family.  st: stage index the name carries (stageN. prefix, default 0), *)
(* b: base, k: literal roman suffix (-I = 1, -II = 2), dg: the name ends with a digit.                            *)
Info(n) == CASE n = "foo-I"      -> [st |-> 0, b |-> "foo", k |-> 1, dg |-> FALSE]
             [] n = "stage0.foo" -> [st |-> 0, b |-> "foo", k |-> 0, dg |-> FALSE]
             [] n = "stage1.c"   -> [st |-> 1, b |-> "c",   k |-> 0, dg |-> FALSE]
             [] n = "stage1.cc"  -> [st |-> 1, b |-> "cc",  k |-> 0, dg |-> FALSE]
             [] n \in {"foo2", "a2", "b2", "d2"} -> [st |-> 0, b |-> n, k |-> 0, dg |-> TRUE]
             [] OTHER            -> [st |-> 0, b |-> n,     k |-> 0, dg |-> FALSE]

---------------------------------------------------------------------------
(* 2. Namespace model                                                      *)
(*  ns = [entry, eargs, ovr, wfs, comps]                                    *)
(*  eargs: the args of entrypoint.execute[0]; ovr = [given, args]: the arguments the caller of the compiler lays    *)
(*  over them (API: override_entrypoint_args; package load: the `global` section of the user variables file)       *)
(*  wf  = [name, params, steps, exec]   steps: <<[name, tmpl]>> (the `steps` dictionary, ordered)                 *)
(*                                      exec : <<[target, args]>> (the `execute` list), args: <<[n, v]>>          *)
(*  comp = [name, params, vars, args]   args: the value of command.arguments; vars: <<[n, v]>> the private         *)
(*                                      `variables` of the component (never set by a caller)                       *)
(*  param = [n, hasD, d]                d: default value (a value without par tokens)                             *)

Range(s) == {s[i] : i \in DOMAIN s}
IsPrefix(p, s) == Len(p) <= Len(s) /\ \A i \in 1..Len(p) : p[i] = s[i]

HasWf(n, t)   == \E i \in DOMAIN n.wfs : n.wfs[i].name = t
HasComp(n, t) == \E i \in DOMAIN n.comps : n.comps[i].name = t
Wf(n, t)      == n.wfs[CHOOSE i \in DOMAIN n.wfs : n.wfs[i].name = t]
Comp(n, t)    == n.comps[CHOOSE i \in DOMAIN n.comps : n.comps[i].name = t]
ParamsOf(n, t) == IF HasWf(n, t) THEN Wf(n, t).params ELSE Comp(n, t).params
ParamNames(ps) == {ps[i].n : i \in DOMAIN ps}
ArgNames(as)   == {as[i].n : i \in DOMAIN as}
VarNames(c)    == {c.vars[i].n : i \in DOMAIN c.vars}
ArgVal(as, name) == as[CHOOSE i \in DOMAIN as : as[i].n = name].v
StepNames(w)   == {w.steps[i].name : i \in DOMAIN w.steps}
StepTmpl(w, s) == w.steps[CHOOSE i \in DOMAIN w.steps : w.steps[i].name = s].tmpl

Loc(kind, tmpl, idx) == [kind |-> kind, tmpl |-> tmpl, idx |-> idx]     \* idx = -1: the template as a whole
(* An error: any of the locations `alts` identifies the offending place; soft: the compiler may also accept it.  *)
Err(what, alts) == [what |-> what, alts |-> alts, soft |-> FALSE]

---------------------------------------------------------------------------
(* 3. Semantics                                                            *)

(* 3.1 Resolution of a value in a parameter environment.  env: [parameter name -> resolved value]; pp: the path  *)
(* of the workflow instance in whose text the value is written -- an output reference is relative to it.         *)
(* %(p)s/x:m extends the (method-less) reference held by p; anything else it is appended to stays as text.       *)
ApplySuffix(v, t) ==
    IF t.segs = <<>> /\ t.m = "" THEN v
    ELSE IF Len(v) > 0 /\ v[Len(v)].k = "ref" /\ v[Len(v)].m = ""
         THEN [v EXCEPT ![Len(v)] = [@ EXCEPT !.segs = @ \o t.segs, !.m = t.m]]
         ELSE v \o <<Sfx(t.segs, t.m)>>

(* vs: the private variables of the component whose own text is resolved ({} for the arguments a caller writes:   *)
(* those are evaluated in the scope of the CALLER, where a variable of the callee does not exist -- a caller's    *)
(* %(g)s is the caller's parameter g even when the called component has a variable g).  Inside the component a    *)
(* %(v)s of a variable is left for FlowIR; a name cannot be both a parameter and a variable of one component.     *)
IsDict(v) == Len(v) = 1 /\ v[1].k = "dict"
RECURSIVE ResolveFrom(_, _, _, _, _)
ResolveFrom(val, i, env, pp, vs) ==
    IF i > Len(val) THEN <<>>
    ELSE LET t == val[i]
             here == CASE t.k = "ref" -> <<[t EXCEPT !.segs = pp \o @, !.cut = 0, !.q = FALSE]>>
                       [] t.k = "par" /\ t.s \in vs -> <<Var(t.s)>>
                       \* a dictionary can be handed on as a whole (%(env)s and nothing else); it has no text to embed
                       [] t.k = "par" /\ IsDict(env[t.s]) ->
                             IF Len(val) = 1 /\ t.segs = <<>> /\ t.m = "" THEN env[t.s] ELSE <<BadDict(t.s)>>
                       [] t.k = "par" -> ApplySuffix(env[t.s], t)
                       [] OTHER       -> <<t>>
         IN here \o ResolveFrom(val, i + 1, env, pp, vs)
Resolve(val, env, pp) == ResolveFrom(val, 1, env, pp, {})
ResolveInComponent(c, env) == ResolveFrom(c.args, 1, env, <<>>, VarNames(c))

(* The environment of an instantiated template: the caller's argument first, then the declared default          *)
ChildEnv(n, tmpl, args, env, pp) ==
    LET ps == ParamsOf(n, tmpl)
    IN [q \in ParamNames(ps) |->
           IF q \in ArgNames(args) THEN Resolve(ArgVal(args, q), env, pp)
           ELSE LET p == ps[CHOOSE i \in DOMAIN ps : ps[i].n = q] IN Resolve(p.d, env, pp)]

EmptyEnv == [q \in {} |-> <<>>]

(* The arguments of the entry instance: override > entrypoint args > declared default (ChildEnv); an argument the  *)
(* override does not mention keeps its entrypoint value.                                                           *)
EntryArgs(n) == IF n.ovr.given THEN n.ovr.args \o SelectSeq(n.eargs, LAMBDA a : a.n \notin ArgNames(n.ovr.args))
                ELSE n.eargs

(* 3.2 Structural errors: everything that can be decided on the text of the templates reachable from the        *)
(* entrypoint, before any value is resolved.                                                                      *)
ParRefs(val)  == {val[i].s : i \in {j \in DOMAIN val : val[j].k = "par"}}
RefToks(val)  == {val[i] : i \in {j \in DOMAIN val : val[j].k = "ref"}}
BadToks(val)  == {val[i] : i \in {j \in DOMAIN val : val[j].k = "bad"}}

ExecErrs(n, w, i, stack) ==
    LET e    == w.exec[i]
        here == Loc("workflows", w.name, i)
        dup  == \E j \in 1..(i - 1) : w.exec[j].target = e.target
    IN  IF e.target \notin StepNames(w) THEN {Err("execute entry without step", {here})}
        ELSE IF dup THEN {Err("step executed twice", {here})}
        ELSE LET t == StepTmpl(w, e.target)
             IN IF ~(HasWf(n, t) \/ HasComp(n, t)) THEN {Err("unknown template", {here})}
                ELSE IF t \in stack THEN {Err("template instantiates itself (cycle)", {here})}
                ELSE
                  {Err("argument for unknown parameter", {here}) : a \in {x \in ArgNames(e.args) : x \notin ParamNames(ParamsOf(n, t))}}
                  \cup {Err("reference to unknown parameter", {here}) :
                           a \in {x \in DOMAIN e.args : ParRefs(e.args[x].v) \ ParamNames(w.params) # {}}}
                  \cup {Err("parameter without value", {here}) :
                           p \in {x \in DOMAIN ParamsOf(n, t) : ~ParamsOf(n, t)[x].hasD /\ ParamsOf(n, t)[x].n \notin ArgNames(e.args)}}
                  \cup {Err("output reference does not start with a sibling step", {here}) :
                           a \in {x \in DOMAIN e.args : \E r \in RefToks(e.args[x].v) :
                                                           r.segs[1] \notin (StepNames(w) \ {e.target})}}
                  \cup {Err("malformed output reference", {here}) : a \in {x \in DOMAIN e.args : BadToks(e.args[x].v) # {}}}

RECURSIVE TmplErrs(_, _, _)
TmplErrs(n, t, stack) ==
    IF HasComp(n, t) /\ ~HasWf(n, t)
    THEN LET c == Comp(n, t)
         IN IF ParRefs(c.args) \ (ParamNames(c.params) \cup VarNames(c)) # {}
            THEN {Err("component references unknown parameter", {Loc("components", t, -1)})} ELSE {}
    ELSE LET w == Wf(n, t)
             own == UNION {ExecErrs(n, w, i, stack \cup {t}) : i \in DOMAIN w.exec}
             unexec == {Err("step without execute entry", {Loc("workflows", t, -1)}) :
                           s \in {x \in StepNames(w) : \A i \in DOMAIN w.exec : w.exec[i].target # x}}
             below == UNION {TmplErrs(n, StepTmpl(w, w.exec[i].target), stack \cup {t}) :
                               i \in {j \in DOMAIN w.exec : ExecErrs(n, w, j, stack \cup {t}) = {}}}
         IN own \cup unexec \cup below

EntryErrs(n) ==
    IF ~(HasWf(n, n.entry) \/ HasComp(n, n.entry)) THEN {Err("unknown entry template", {Loc("entrypoint", "", -1)})}
    ELSE LET ps == ParamsOf(n, n.entry)
         IN {Err("entrypoint argument for unknown parameter", {Loc("entrypoint", "", -1)}) :
                a \in ArgNames(EntryArgs(n)) \ ParamNames(ps)}
            \* there is no scope above the entry instance: a %(x)s in the value of one of its arguments (whichever source it
            \* comes from, whatever x is) cannot be bound.  A value that the override replaces does not count.
            \cup {Err("entry argument references a parameter", {Loc("entrypoint", "", -1)}) :
                a \in {x \in DOMAIN EntryArgs(n) : ParRefs(EntryArgs(n)[x].v) # {}}}
            \cup {Err("entry parameter without value", {Loc(IF HasWf(n, n.entry) THEN "workflows" ELSE "components", n.entry, -1),
                                                         Loc("entrypoint", "", -1)}) :
                p \in {x \in DOMAIN ps : ~ps[x].hasD /\ ps[x].n \notin ArgNames(EntryArgs(n))}}

(* a component (reachable or not) whose variable is called like one of its own parameters *)
ConflictErrs(n) == {Err("variable named like a parameter of the component", {Loc("components", n.comps[i].name, -1)}) :
                       i \in {j \in DOMAIN n.comps : VarNames(n.comps[j]) \cap ParamNames(n.comps[j].params) # {}}}

StructErrs(n) == LET ee == EntryErrs(n) IN IF ee # {} THEN ee ELSE TmplErrs(n, n.entry, {}) \cup ConflictErrs(n)

(* 3.3 Flatten: the component instances, in execute order, depth first.  Only evaluated when StructErrs = {}.    *)
(* path: the step names from the entry workflow down to the component (the unique identity of the instance);     *)
(* site: where the instance is created (error location); env: resolved parameters; args: resolved arguments.     *)
RECURSIVE Walk(_, _, _, _, _), WalkSteps(_, _, _, _, _)
Walk(n, t, path, env, site) ==
    IF HasWf(n, t) THEN WalkSteps(n, Wf(n, t), 1, path, env)
    ELSE << [path |-> path, tmpl |-> t, site |-> site, env |-> env, args |-> ResolveInComponent(Comp(n, t), env)] >>
WalkSteps(n, w, i, path, env) ==
    IF i > Len(w.exec) THEN <<>>
    ELSE LET e == w.exec[i]
             t == StepTmpl(w, e.target)
         IN Walk(n, t, path \o <<e.target>>, ChildEnv(n, t, e.args, env, path), Loc("workflows", w.name, i))
            \o WalkSteps(n, w, i + 1, path, env)

Flatten(n) == Walk(n, n.entry, <<>>, ChildEnv(n, n.entry, EntryArgs(n), EmptyEnv, <<>>), Loc("entrypoint", "", -1))

(* 3.4 Producers.  An absolute reference <s1/../sn> denotes the component instance whose path is the longest      *)
(* prefix of it; the remaining segments are the path of a file below the producer's working directory.            *)
InstPaths(flat) == {flat[i].path : i \in DOMAIN flat}
Producers(flat, r) == {p \in InstPaths(flat) : IsPrefix(p, r.segs)}
HasProducer(flat, r) == Producers(flat, r) # {}
ProducerOf(flat, r) == CHOOSE p \in Producers(flat, r) : \A o \in Producers(flat, r) : Len(o) <= Len(p)

EnvRefs(inst)  == UNION {RefToks(inst.env[q]) : q \in DOMAIN inst.env}
(* The references of an instance: those of its arguments, and those with a method in its parameters (a reference  *)
(* handed to a component is a dependency even when the command line does not mention it, e.g. :copy).             *)
InstRefs(inst) == RefToks(inst.args) \cup {r \in EnvRefs(inst) : r.m # ""}

Edges(flat) == UNION { {<<ProducerOf(flat, r), flat[i].path>> : r \in {x \in InstRefs(flat[i]) : HasProducer(flat, x)}} : i \in DOMAIN flat }

RECURSIVE Reach(_, _, _)
Reach(E, S, fuel) == IF fuel = 0 THEN S ELSE Reach(E, S \cup {e[2] : e \in {x \in E : x[1] \in S}}, fuel - 1)
(* the instances that lie on a cycle of the relation E *)
CyclicPaths(flat) == LET E == Edges(flat)
                     IN {p \in InstPaths(flat) : p \in Reach(E, {e[2] : e \in {x \in E : x[1] = p}}, Len(flat))}

(* 3.5 Errors that need the resolved values                                                                       *)
SemErrs(flat) ==
    UNION {
      LET inst == flat[i] IN
        {Err("reference does not lead to a component", {inst.site}) : r \in {x \in InstRefs(inst) \cup EnvRefs(inst) : ~HasProducer(flat, x)}}
        \cup {Err("reference without method in the arguments", {inst.site}) : r \in {x \in RefToks(inst.args) : x.m = ""}}
        \cup {Err("reference without method is never given one", {inst.site}) :
                 r \in {x \in EnvRefs(inst) : x.m = "" /\ ~\E a \in RefToks(inst.args) : a.segs = x.segs /\ a.m # ""}}
        \cup {Err("text left after a reference", {inst.site}) : r \in {j \in DOMAIN inst.args : inst.args[j].k = "sfx"}}
        \* a dictionary parameter inside a longer string: written in the execute entry that creates the instance (it is then
        \* in the instance's parameters) or in the text of the component template
        \cup (IF \E q \in DOMAIN inst.env : \E j \in DOMAIN inst.env[q] : inst.env[q][j].k = "baddict"
              THEN {Err("dictionary parameter embedded in a string of a step argument", {inst.site})}
              ELSE IF \E j \in DOMAIN inst.args : inst.args[j].k = "baddict"
              THEN {Err("dictionary parameter embedded in a string of a component field", {Loc("components", inst.tmpl, -1)})}
              ELSE {})
      : i \in DOMAIN flat }
    \cup (LET E   == Edges(flat)
              cyc == CyclicPaths(flat)
              \* the cycle(s) through p: everything that p reaches and that reaches p
              scc(p) == {q \in cyc : q \in Reach(E, {p}, Len(flat)) /\ p \in Reach(E, {q}, Len(flat))}
          \* one error per set of steps that consume each other's output; it is located by ANY step of the set
          \* (the statement asks for the offending locations: every cycle must be pointed at, not every member)
          IN {Err("steps form a dataflow cycle", {flat[i].site : i \in {j \in DOMAIN flat : flat[j].path \in scc(p)}}) : p \in cyc})
    \cup {[what |-> "component step name ends with a digit", alts |-> {flat[i].site}, soft |-> TRUE] :
             i \in {j \in DOMAIN flat : Len(flat[j].path) > 0 /\ Info(flat[j].path[Len(flat[j].path)]).dg}}

AllErrs(n) == LET se == StructErrs(n) IN IF se # {} THEN se ELSE SemErrs(Flatten(n))
HardErrs(es) == {e \in es : ~e.soft}

---------------------------------------------------------------------------
(* 3.6 Named deviation: the naming scheme of the implementation.  A component is named after its step; the j-th   *)
(* later homonym (discovery order: per workflow the component steps in reverse execute order, then the workflow   *)
(* steps in execute order, depth first) gets the suffix -ROMAN(j); `stageN.` is parsed off the result.  The       *)
(* property only demands unique names; CodeNamingInjective states that this scheme delivers them -- TLC refutes   *)
(* it (generated foo-I against a literal foo-I, stage0.foo against foo), which is how the family's hazards are    *)
(* classified for the driver (field `clash` of a case).                                                           *)
RECURSIVE Disc(_, _, _), DiscComps(_, _, _, _), DiscWfs(_, _, _, _)
Disc(n, t, path) == IF HasWf(n, t) THEN DiscComps(n, Wf(n, t), Len(Wf(n, t).exec), path) \o DiscWfs(n, Wf(n, t), 1, path)
                    ELSE <<path>>
DiscComps(n, w, i, path) ==
    IF i = 0 THEN <<>>
    ELSE (IF HasWf(n, StepTmpl(w, w.exec[i].target)) THEN <<>> ELSE <<path \o <<w.exec[i].target>>>>) \o DiscComps(n, w, i - 1, path)
DiscWfs(n, w, i, path) ==
    IF i > Len(w.exec) THEN <<>>
    ELSE (IF HasWf(n, StepTmpl(w, w.exec[i].target)) THEN Disc(n, StepTmpl(w, w.exec[i].target), path \o <<w.exec[i].target>>) ELSE <<>>)
         \o DiscWfs(n, w, i + 1, path)
Last(s) == s[Len(s)]
NonZero(s) == SelectSeq(s, LAMBDA x : x > 0)
CodeId(order, i) ==
    LET nm    == Last(order[i])
        prior == Cardinality({j \in 1..(i - 1) : Last(order[j]) = nm})
    IN <<Info(nm).st, Info(nm).b, NonZero(<<Info(nm).k, prior>>)>>
CodeClash(n) == LET order == Disc(n, n.entry, <<>>)
                IN \E i, j \in DOMAIN order : i < j /\ CodeId(order, i) = CodeId(order, j)

---------------------------------------------------------------------------
(* 4. The family                                                           *)

LvlName(k) == <<"main", "sub", "subsub">>[k]
(* producer step of level k, consumer step of level k, second consumer of main, per naming scheme *)
PName(nm, k) == CASE nm = "homo"     -> "foo"
                  [] nm = "dist"     -> <<"a", "b", "d">>[k]
                  [] nm = "prefix"   -> <<"a", "ba", "a">>[k]
                  [] nm = "sufclash" -> "foo"
                  [] nm = "st0clash" -> <<"stage0.foo", "foo", "foo">>[k]
                  [] nm = "stage1"   -> "foo"
CName(nm, k) == CASE nm = "homo"     -> "c"
                  [] nm = "dist"     -> <<"ca", "cb", "cd">>[k]
                  [] nm = "prefix"   -> <<"ab", "b", "ab">>[k]
                  [] nm = "sufclash" -> <<"foo-I", "c", "c">>[k]
                  [] nm = "st0clash" -> "c"
                  [] nm = "stage1"   -> "stage1.c"
C2Name(nm)   == CASE nm = "stage1" -> "stage1.cc" [] nm = "prefix" -> "a-b" [] OTHER -> "cc"
(* the file below a producer that references name; in the homonym scheme it is called like the steps *)
File(nm)     == IF nm \in {"homo", "sufclash"} THEN "foo" ELSE "out.txt"
W1 == "w"
W2 == "wb"

(* reference to the component/file `segs` (relative), spelled per sp; the consumer template that fits *)
SibRef(sp, segs, file) ==
    CASE sp = "bareT" -> Ref(segs, 0, FALSE, "")                         \* <a>         (+ %(x)s:ref in the template)
      [] sp = "meth"  -> Ref(segs, 0, FALSE, "ref")                      \* <a>:ref
      [] sp = "in"    -> Ref(segs \o <<file>>, 0, FALSE, "ref")          \* <a/out.txt>:ref
      [] sp = "out"   -> Ref(segs \o <<file>>, Len(segs), FALSE, "ref")  \* <a>/out.txt:ref
      [] sp = "q"     -> Ref(segs \o <<file>>, Len(segs), TRUE, "ref")   \* "<a>"/out.txt:ref
      [] sp = "qcut"  -> Ref(segs \o <<file>>, 1, TRUE, "output")        \* "<w>"/a/out.txt:output
      [] sp \in {"dup", "two"} -> Ref(segs, 0, FALSE, "ref")             \* <a>:ref, and a second reference to a in y
ConsFor(sp) == IF sp = "bareT" THEN "consT" ELSE "consA"

(* value handed to the parameter p of the next level, and the x argument of the consumer that uses %(p)s *)
PVal(pd, segs, file) == CASE pd = "bare" -> <<Ref(segs, 0, FALSE, "")>>
                          [] pd = "sfx"  -> <<Ref(segs, 0, FALSE, "")>>
                          [] pd = "meth" -> <<Ref(segs, 0, FALSE, "ref")>>
                          [] pd = "file" -> <<Ref(segs \o <<file>>, 0, FALSE, "")>>
DeepX(pd, file) == CASE pd = "bare" -> <<Par("p")>>                           \* + consT
                     [] pd = "sfx"  -> <<ParX("p", <<file>>, "output")>>      \* %(p)s/out.txt:output
                     [] pd = "meth" -> <<Par("p")>>
                     [] pd = "file" -> <<ParX("p", <<>>, "output")>>          \* %(p)s:output
DeepCons(pd) == IF pd = "bare" THEN "consT" ELSE "consA"

A(name, v) == [n |-> name, v |-> v]
(* m argument of the producer of a level *)
MArgs(bm) == CASE bm \in {"dflt"}              -> <<>>
               [] bm = "lit"                   -> <<A("m", <<Lit("lit")>>)>>
               [] bm \in {"fwd", "dfwd", "ovr"} -> <<A("m", <<Par("g")>>)>>
               [] bm = "emb"                   -> <<A("m", <<Lit("x"), Par("g"), Par("gg"), Lit("-"), Par("g")>>)>>
               \* falsy literals: the caller's "" / 0 is an argument like any other, it beats the (non-empty) default
               [] bm = "litE"                  -> <<A("m", <<>>)>>
               [] bm = "litZ"                  -> <<A("m", <<Num("0")>>)>>
               [] bm \in {"fwdE", "fwdZ"}      -> <<A("m", <<Par("g")>>)>>
(* g argument handed to the workflow of level k+1 by level k *)
GArgs(bm, k) == CASE bm \in {"fwd", "dfwd", "emb"} -> <<A("g", <<Par("g")>>)>>
                  [] bm = "ovr" /\ k = 1           -> <<A("g", <<Lit("ov")>>)>>
                  \* the falsy value comes from the entrypoint, is forwarded by main and written again literally by sub
                  [] bm \in {"fwdE", "fwdZ"} /\ k = 1 -> <<A("g", <<Par("g")>>)>>
                  [] bm = "fwdE"                   -> <<A("g", <<>>)>>
                  [] bm = "fwdZ"                   -> <<A("g", <<Num("0")>>)>>
                  [] OTHER                         -> <<>>
EArgs(bm) == CASE bm \in {"fwd", "ovr", "emb"} -> <<A("g", <<Lit("E")>>)>>
               [] bm = "fwdE" -> <<A("g", <<>>)>>
               [] bm = "fwdZ" -> <<A("g", <<Num("0")>>)>>
               [] OTHER -> <<>>

P(name, hasD, d) == [n |-> name, hasD |-> hasD, d |-> d]
WfParams(k) == IF k = 1 THEN <<P("g", TRUE, <<Lit("dg")>>), P("gg", TRUE, <<>>)>>
               ELSE <<P("p", FALSE, <<>>), P("g", TRUE, <<Lit("dsub")>>), P("gg", TRUE, <<Lit("hh")>>)>>

Rev(s) == [i \in 1..Len(s) |-> s[Len(s) + 1 - i]]
Opt(c, s) == IF c THEN s ELSE <<>>

(* the producer step of level k under the choice c (the digitName mutation renames it everywhere) *)
PN(c, k) == IF c.mut = "digitName" /\ c.ml = k THEN <<"a2", "b2", "d2">>[k] ELSE PName(c.nm, k)

(* workflow template of level k for the choice c *)
BuildWf(c, k) ==
    LET mu(x)  == c.mut = x /\ c.ml = k
        cn     == CName(c.nm, k)
        file   == File(c.nm)
        pname  == PN(c, k)
        inner  == k < c.d
        two    == inner /\ c.reuse >= k
        \* the producer
        pStep  == [name |-> pname, tmpl |-> CASE mu("unkTemplate")      -> "nosuch"
                                               [] mu("unkParTmpl")       -> "prodBad"
                                               [] mu("varShadowsParam")  -> "prodM"
                                               [] mu("dictInField")      -> "prodD"
                                               [] c.vr = "priv"          -> "prodV"
                                               [] c.vr = "shadow"        -> "prodG"
                                               [] OTHER                  -> "prod"]
        dicts  == c.mut \in {"dictInStep", "dictInField"}      \* a dictionary parameter env travels down the call chain
        pArgs  == (IF mu("unkParRef") THEN <<A("m", <<Par("zz")>>)>>
                   ELSE IF mu("dictInStep") THEN <<A("m", <<Lit("env="), Par("env")>>)>>            \* "env=%(env)s"
                   ELSE IF mu("dictInField") THEN <<A("env", <<Par("env")>>)>>                      \* legal: the whole value
                   ELSE IF c.es.on /\ k = 1 THEN <<A("m", <<Par("g"), Lit("."), Par("e")>>)>>      \* both entry parameters show
                   ELSE MArgs(c.bm)) \o Opt(mu("unkArg"), <<A("zz", <<Lit("1")>>)>>)
        \* the nested workflow(s)
        pdown  == IF k = 1 THEN PVal(c.pd, <<pname>>, file) ELSE <<Par("p")>>
        wArgs  == Opt(~mu("missingWfArg"), <<A("p", pdown)>>) \o GArgs(c.bm, k) \o Opt(dicts, <<A("env", <<Par("env")>>)>>)
        w2Args == <<A("p", PVal(c.pd, <<W1, PN(c, k + 1)>>, file))>> \o GArgs(c.bm, k) \o Opt(dicts, <<A("env", <<Par("env")>>)>>)
        \* the consumer
        cx     == IF k = 1 THEN <<SibRef(c.sp, <<pname>>, file)>> ELSE DeepX(c.pd, file)
        ctmpl  == IF mu("methodless") THEN "consA" ELSE IF k = 1 THEN ConsFor(c.sp) ELSE DeepCons(c.pd)
        cy     == CASE mu("unkStep")    -> <<A("y", <<Ref(<<"nosuch">>, 0, FALSE, "output")>>)>>
                    [] mu("selfRef")    -> <<A("y", <<Ref(<<cn>>, 0, FALSE, "output")>>)>>
                    [] mu("nonSibling") -> <<A("y", <<Ref(<<IF k = 1 THEN "nosuch" ELSE PN(c, k - 1)>>, 0, FALSE, "output")>>)>>
                    [] mu("badRef")     -> <<A("y", <<Bad(<<pname>>, "output")>>)>>
                    [] mu("dataCycle")  -> <<A("y", <<Ref(<<"dd">>, 0, FALSE, "output")>>)>>
                    [] k > 1            -> <<A("y", <<Ref(<<pname>>, 0, FALSE, "output")>>)>>
                    [] c.sp = "dup"     -> <<A("y", <<Ref(<<pname>>, 0, FALSE, "ref")>>)>>            \* the same text twice
                    [] c.sp = "two"     -> <<A("y", <<Ref(<<pname, file>>, 1, FALSE, "output")>>)>>   \* <a>/out.txt:output
                    [] OTHER            -> <<>>
        cArgs  == Opt(~mu("missingArg"), <<A("x", IF mu("methodless") THEN <<Ref(<<pname>>, 0, FALSE, "")>> ELSE cx)>>) \o cy
        \* main's second consumer reaches into the nested workflows
        c2x    == CASE mu("refToWf")      -> <<Ref(<<W1>>, 0, FALSE, "ref")>>
                    [] mu("refToMissing") -> <<Ref(<<W1, "nosuch">>, 0, FALSE, "ref")>>
                    [] OTHER              -> <<SibRef(c.sp, <<W1, PN(c, 2)>>, file)>>
        c2y    == IF c.d = 3 THEN <<A("y", <<Ref(<<IF c.reuse >= 1 THEN W2 ELSE W1, W1, PN(c, 3)>>, 0, FALSE, "output")>>)>> ELSE <<>>
        c2tmpl == IF mu("refToWf") \/ mu("refToMissing") THEN "consA" ELSE ConsFor(c.sp)
        has2   == k = 1 /\ c.d >= 2
        steps  == <<pStep>>
                  \o Opt(inner, <<[name |-> W1, tmpl |-> LvlName(k + 1)]>>)
                  \o Opt(two,   <<[name |-> W2, tmpl |-> LvlName(k + 1)]>>)
                  \o <<[name |-> cn, tmpl |-> ctmpl]>>
                  \o Opt(has2,  <<[name |-> C2Name(c.nm), tmpl |-> c2tmpl]>>)
                  \o Opt(mu("dataCycle"), <<[name |-> "dd", tmpl |-> "consA"]>>)
                  \o Opt(mu("dataCycle") /\ c.cl = 3,  <<[name |-> "de", tmpl |-> "consA"]>>)
                  \o Opt(mu("dataCycle") /\ c.cx >= 1, <<[name |-> "dz", tmpl |-> "consA"]>>)
                  \o Opt(mu("dataCycle") /\ c.cx >= 2, <<[name |-> "dy", tmpl |-> "consA"]>>)
                  \o Opt(mu("wfCycle"),   <<[name |-> "cyc", tmpl |-> "main"]>>)
                  \o Opt(mu("noExec"),    <<[name |-> "lonely", tmpl |-> "prod"]>>)
        exec   == <<[target |-> pname, args |-> pArgs]>>
                  \o Opt(inner, <<[target |-> W1, args |-> wArgs]>>)
                  \o Opt(two,   <<[target |-> W2, args |-> w2Args]>>)
                  \o <<[target |-> cn, args |-> cArgs]>>
                  \o Opt(has2,  <<[target |-> C2Name(c.nm), args |-> <<A("x", c2x)>> \o c2y]>>)
                  \* the cycle: cn -> dd (-> de) -> cn, i.e. cn consumes dd, dd consumes (de, which consumes) cn; the producer of
                  \* the level still feeds cn from outside the cycle; dz and dy consume cycle members without being on the
                  \* cycle and are listed last, as one would write them
                  \o Opt(mu("dataCycle"), <<[target |-> "dd", args |-> <<A("x", <<Ref(<<IF c.cl = 3 THEN "de" ELSE cn>>, 0, FALSE, "ref")>>)>>]>>)
                  \o Opt(mu("dataCycle") /\ c.cl = 3,  <<[target |-> "de", args |-> <<A("x", <<Ref(<<cn>>, 0, FALSE, "ref")>>)>>]>>)
                  \o Opt(mu("dataCycle") /\ c.cx >= 1, <<[target |-> "dz", args |-> <<A("x", <<Ref(<<"dd">>, 0, FALSE, "ref")>>)>>]>>)
                  \o Opt(mu("dataCycle") /\ c.cx >= 2, <<[target |-> "dy", args |-> <<A("x", <<Ref(<<cn>>, 0, FALSE, "output")>>)>>]>>)
                  \o Opt(mu("wfCycle"),   <<[target |-> "cyc", args |-> <<>>]>>)
                  \o Opt(mu("execNoStep"), <<[target |-> "ghost", args |-> <<>>]>>)
                  \o Opt(mu("dupExec"),   <<[target |-> pname, args |-> pArgs]>>)
    IN [name   |-> LvlName(k),
        params |-> WfParams(k) \o Opt(k = 1 /\ (c.mut = "missingEntry" \/ c.es.on), <<P("e", FALSE, <<>>)>>)
                   \o Opt(dicts, <<IF k = 1 THEN P("env", TRUE, <<Dict("K=V")>>) ELSE P("env", FALSE, <<>>)>>),
        steps  |-> steps,
        exec   |-> IF c.ord = "rev" THEN Rev(exec) ELSE exec]

V(name, v) == [n |-> name, v |-> v]
PM == <<P("m", TRUE, <<Lit("dm")>>)>>
CompTemplates(c) ==
    << [name |-> "prod",  params |-> PM, vars |-> <<>>, args |-> <<Lit("-m "), Par("m")>>],
       [name |-> "consT", params |-> <<P("x", FALSE, <<>>), P("y", TRUE, <<Lit("dy")>>)>>, vars |-> <<>>,
                          args |-> <<ParX("x", <<>>, "ref"), Lit(" "), Par("y")>>],                    \* %(x)s:ref %(y)s
       [name |-> "consA", params |-> <<P("x", FALSE, <<>>), P("y", TRUE, <<Lit("dy")>>)>>, vars |-> <<>>,
                          args |-> <<Par("x"), Lit(" "), Par("y")>>],                                  \* %(x)s %(y)s
       [name |-> "prodBad", params |-> PM, vars |-> <<>>, args |-> <<Lit("-m "), Par("m"), Par("zz")>>],
       \* private variables: v is used by nobody else; g is also the name of a parameter of every workflow of the family
       [name |-> "prodV", params |-> PM, vars |-> <<V("v", "V1"), V("unused", "U")>>, args |-> <<Lit("-m "), Par("m"), Lit(" "), Par("v")>>],
       [name |-> "prodD", params |-> PM \o <<P("env", FALSE, <<>>)>>, vars |-> <<>>,
                          args |-> <<Lit("-m "), Par("m"), Lit(" env="), Par("env")>>],               \* a dictionary inside a string
       [name |-> "prodG", params |-> PM, vars |-> <<V("g", "VG")>>, args |-> <<Par("g"), Lit(" -m "), Par("m"), Lit(" "), Par("g")>>] >>
    \* a template whose variable is called like its own parameter is an error wherever it is: only present when mutated
    \o Opt(c.mut = "varShadowsParam", <<[name |-> "prodM", params |-> PM, vars |-> <<V("m", "VM")>>, args |-> <<Lit("-m "), Par("m")>>]>>)

(* entry sources (c.es.on): main has g (default dg) and e (no default); the entrypoint gives g = E (eg) and/or e = EE (ee);   *)
(* the override, when given (ov), names g = OG (og) and/or e = OE (oe) and/or an unknown parameter zz (oz)                    *)
(* rf: the VALUE of g contains a parameter reference -- in the entrypoint (e..) or in the override (o..), naming the        *)
(* parameter gg of main (..Known) or nothing that exists (..Unknown).  Inside the workflows (depth > 1, binding mode fwd)    *)
(* the same spelling %(g)s is the legal reference to a parameter of the parent.                                              *)
ERf == {"eKnown", "eUnknown", "eEmpty", "eZero"}
ORf == {"oKnown", "oUnknown", "oEmpty", "oZero"}
EsOff == [on |-> FALSE, eg |-> FALSE, ee |-> FALSE, ov |-> FALSE, og |-> FALSE, oe |-> FALSE, oz |-> FALSE, rf |-> "none"]
EsAll == {[on |-> TRUE, eg |-> eg, ee |-> ee, ov |-> ov, og |-> og, oe |-> oe, oz |-> oz, rf |-> rf] :
             eg \in BOOLEAN, ee \in BOOLEAN, ov \in BOOLEAN, og \in BOOLEAN, oe \in BOOLEAN, oz \in BOOLEAN,
             rf \in ERf \cup ORf \cup {"none"}}
RfVal(rf, plain) == CASE rf \in {"eKnown", "oKnown"}     -> <<Lit("x"), Par("gg")>>
                      [] rf \in {"eUnknown", "oUnknown"} -> <<Par("zz")>>
                      [] rf \in {"eEmpty", "oEmpty"}     -> <<>>              \* "" : falsy, but a value
                      [] rf \in {"eZero", "oZero"}       -> <<Num("0")>>      \* 0
                      [] OTHER -> <<Lit(plain)>>
(* without an override nothing can be named by it; at most ONE fault per namespace (unknown name, or e without a value): the   *)
(* compiler stops at the first fault it meets, which of two independent faults it reports is not part of the property     *)
EsModes == {e \in EsAll : /\ (e.ov \/ ~(e.og \/ e.oe \/ e.oz)) /\ ~(e.oz /\ ~(e.ee \/ e.oe))
                          /\ (e.rf # "none" => ((e.ee \/ e.oe) /\ ~e.oz))
                          /\ (e.rf \in ERf => e.eg) /\ (e.rf \in ORf => e.og)}
(* a reference in the entrypoint's g is harmless when the override replaces g *)
EsValid(e) == ~e.on \/ ((e.ee \/ e.oe) /\ ~e.oz /\ ~(e.rf \in {"oKnown", "oUnknown"}) /\ ~(e.rf \in {"eKnown", "eUnknown"} /\ ~e.og))
Build(c) == [entry |-> IF c.mut = "unkEntry" THEN "nosuch" ELSE "main",
             eargs |-> (IF c.es.on THEN Opt(c.es.eg, <<A("g", RfVal(IF c.es.rf \in ERf THEN c.es.rf ELSE "none", "E"))>>) \o Opt(c.es.ee, <<A("e", <<Lit("EE")>>)>>) ELSE EArgs(c.bm))
                       \o Opt(c.mut = "entryUnkArg", <<A("zz", <<Lit("1")>>)>>),
             ovr   |-> [given |-> c.es.ov,
                        args  |-> Opt(c.es.og, <<A("g", RfVal(IF c.es.rf \in ORf THEN c.es.rf ELSE "none", "OG"))>>) \o Opt(c.es.oe, <<A("e", <<Lit("OE")>>)>>)
                                  \o Opt(c.es.oz, <<A("zz", <<Lit("1")>>)>>)],
             wfs   |-> [k \in 1..c.d |-> BuildWf(c, k)],
             comps |-> CompTemplates(c)]

(* which levels a mutation can be applied to *)
MutLevels(mu, d) == CASE mu \in {"unkEntry", "entryUnkArg", "missingEntry", "methodless"} -> {1}
                      [] mu \in {"refToWf", "refToMissing"} -> IF d >= 2 THEN {1} ELSE {}
                      [] mu = "missingWfArg" -> 1..(d - 1)
                      [] mu = "wfCycle" -> 1..d
                      [] OTHER -> 1..d

Canon(c) == c.sp = "bareT" /\ c.pd = "bare"
(* vr: variable mode; cl, cx: length of the dataflow cycle and number of extra consumers of cycle members (dataCycle only) *)
Choice(d, reuse, ord, nm, sp, pd, bm, mut, ml, vr, cl, cx) ==
    [d |-> d, reuse |-> reuse, ord |-> ord, nm |-> nm, sp |-> sp, pd |-> pd, bm |-> bm, mut |-> mut, ml |-> ml,
     vr |-> vr, cl |-> cl, cx |-> cx, es |-> EsOff]
(* entry sources x depth: the value an entry parameter ends up with is forwarded down the call chain (binding mode fwd) *)
EntryChoices ==
    IF "on" \notin EntryModes THEN {}
    ELSE {[Choice(d, 0, "fwd", "dist", "bareT", "bare", "fwd", "none", 0, "none", 0, 0) EXCEPT !.es = e] : d \in Depths, e \in EsModes}
ValidChoices ==
    {c \in {Choice(d, reuse, ord, nm, sp, pd, bm, "none", 0, vr, 0, 0) :
               d \in Depths, reuse \in Reuses, ord \in Orders, nm \in Namings, sp \in Spellings, pd \in PassDowns, bm \in Bindings,
               vr \in VarModes} :
        /\ (c.vr # "none" => (Canon(c) /\ c.nm \in MutNamings))      \* variables are orthogonal to the reference spelling
        /\ (Full \/ c.vr = "none" \/ c.bm \in {"dflt", "fwd", "dfwd", "emb"})
        /\ (Full \/ c.bm = "dflt" \/ c.nm \in MutNamings)
        /\ c.reuse < c.d                                     \* reuse level r needs depth > r
        /\ (c.d = 1 => c.pd = "bare")                        \* no pass-down without nesting
        /\ (c.sp = "qcut" => c.d >= 2)
        /\ (Full \/ c.bm = "dflt" \/ Canon(c))
        /\ (Full \/ c.nm \notin {"sufclash", "st0clash"} \/ (Canon(c) /\ c.bm = "dflt"))}
MutChoices ==
    {c \in {Choice(d, reuse, "fwd", nm, "bareT", "bare", "dflt", mu, ml, "none", 0, 0) :
               d \in Depths, reuse \in Reuses \cap {0, 1}, nm \in MutNamings, mu \in Muts \ {"dataCycle"}, ml \in 1..3} :
        c.reuse < c.d /\ c.ml \in MutLevels(c.mut, c.d)}
    \cup
    \* dataflow cycles of length 2 and 3 at every level, with 0, 1, 2 consumers that are not on the cycle, in both execute orders
    {c \in {Choice(d, reuse, ord, nm, "bareT", "bare", "dflt", "dataCycle", ml, "none", cl, cx) :
               d \in Depths, reuse \in Reuses \cap {0, 1}, ord \in Orders, nm \in MutNamings, ml \in 1..3, cl \in {2, 3}, cx \in {0, 1, 2}} :
        "dataCycle" \in Muts /\ c.reuse < c.d /\ c.ml \in 1..c.d}
Choices == ValidChoices \cup MutChoices \cup EntryChoices

---------------------------------------------------------------------------
(* 5. State machine                                                        *)
NoOut == [flat |-> <<>>, errs |-> {}]

Init == /\ ch \in Choices
        /\ ns = Build(ch)
        /\ phase = "src"
        /\ out = NoOut

Compile == /\ phase = "src"
           /\ LET es == AllErrs(ns)
              IN /\ HardErrs(es) = {}
                 /\ out' = [flat |-> Flatten(ns), errs |-> es]
           /\ phase' = "compiled"
           /\ UNCHANGED <<ch, ns>>

Reject == /\ phase = "src"
          /\ LET es == AllErrs(ns)
             IN /\ HardErrs(es) # {}
                /\ out' = [flat |-> <<>>, errs |-> es]
          /\ phase' = "rejected"
          /\ UNCHANGED <<ch, ns>>

Next == Compile \/ Reject
Spec == Init /\ [][Next]_vars

---------------------------------------------------------------------------
(* 6. Properties of C06 on the model                                       *)
flat == out.flat
Compiled == phase = "compiled"

TypeOK == phase \in {"src", "compiled", "rejected"} /\ ch.d \in Depths /\ Len(ns.wfs) = ch.d

(* one uniquely identified component for every reachable component step *)
PathsUnique == Compiled => \A i, j \in DOMAIN flat : i # j => flat[i].path # flat[j].path
(* number of instances = number of component steps counted along the instantiation tree *)
RECURSIVE CountComps(_, _)
CountComps(n, t) == IF HasWf(n, t)
                    THEN LET w == Wf(n, t) f[i \in 0..Len(w.exec)] == IF i = 0 THEN 0 ELSE f[i - 1] + CountComps(n, StepTmpl(w, w.exec[i].target))
                         IN f[Len(w.exec)]
                    ELSE 1
OnePerStep == Compiled => Len(flat) = CountComps(ns, ns.entry)

(* every parameter reference has been replaced *)
NoParamLeft == Compiled => \A i \in DOMAIN flat :
                  /\ \A j \in DOMAIN flat[i].args : \/ flat[i].args[j].k \in {"lit", "ref", "num"}
                                                      \/ /\ flat[i].args[j].k = "var"      \* only a declared private variable may stay
                                                         /\ flat[i].args[j].s \in VarNames(Comp(ns, flat[i].tmpl))
                  /\ \A q \in DOMAIN flat[i].env : \A j \in DOMAIN flat[i].env[q] : flat[i].env[q][j].k \in {"lit", "ref", "num", "dict"}
(* the value of a parameter is the caller's argument when one is given, the declared default otherwise:         *)
(* checked for the plain parameter m of the producers against the binding mode of the family (independent of     *)
(* Resolve: the expected text is written down per mode)                                                           *)
Text(v) == [j \in DOMAIN v |-> v[j].s]
Falsy(rf, plain) == CASE rf \in {"eEmpty", "oEmpty"} -> "" [] rf \in {"eZero", "oZero"} -> "0" [] OTHER -> plain
EsG(e) == IF e.og THEN Falsy(IF e.rf \in ORf THEN e.rf ELSE "none", "OG")        \* override > entrypoint > default,
          ELSE IF e.eg THEN Falsy(IF e.rf \in ERf THEN e.rf ELSE "none", "E")    \* a falsy value is a value
          ELSE "dg"
EsE(e) == IF e.oe THEN "OE" ELSE "EE"
NonEmpty(ss) == SelectSeq(ss, LAMBDA x : x # "")
ExpectedM(c, k) == CASE c.es.on   -> NonEmpty(IF k = 1 THEN <<EsG(c.es), ".", EsE(c.es)>> ELSE <<EsG(c.es)>>)
                     [] c.bm = "dflt" -> <<"dm">>
                     [] c.bm \in {"litE", "fwdE"} -> <<>>
                     [] c.bm \in {"litZ", "fwdZ"} -> <<"0">>
                     [] c.bm = "lit"  -> <<"lit">>
                     [] c.bm = "fwd"  -> <<"E">>
                     [] c.bm = "dfwd" -> <<"dg">>
                     [] c.bm = "ovr"  -> <<<<"E">>, <<"ov">>, <<"dsub">>>>[k]
                     [] c.bm = "emb"  -> IF k = 1 THEN <<"x", "E", "-", "E">> ELSE <<"x", "E", "hh", "-", "E">>
BindingsAsDeclared == (Compiled /\ ch.mut = "none") =>
                         \A i \in DOMAIN flat : flat[i].tmpl \in {"prod", "prodV", "prodG"} =>
                                                    Text(flat[i].env["m"]) = ExpectedM(ch, Len(flat[i].path))
(* a private variable is invisible to the caller: whatever the component declares, the arguments written by the   *)
(* caller never contain a variable reference after resolution (they are bound in the caller's scope)              *)
VariablesArePrivate == Compiled => \A i \in DOMAIN flat : \A q \in DOMAIN flat[i].env : \A j \in DOMAIN flat[i].env[q] : flat[i].env[q][j].k # "var"

(* the file below the producer that the x argument of a consumer names is the one written in the source, however  *)
(* the reference was spelled and whichever level appended it (again written down per mode, independent of Resolve) *)
FileOf(f, r) == SubSeq(r.segs, Len(ProducerOf(f, r)) + 1, Len(r.segs))
ExpectedFile(c, k) == IF k = 1 THEN (IF c.sp \in {"in", "out", "q", "qcut"} THEN <<File(c.nm)>> ELSE <<>>)
                      ELSE (IF c.pd \in {"sfx", "file"} THEN <<File(c.nm)>> ELSE <<>>)
FilesAsWritten == (Compiled /\ ch.mut = "none") =>
                     \A i \in DOMAIN flat : flat[i].tmpl \in {"consA", "consT"} =>
                        LET x == flat[i].env["x"]
                        IN Len(x) = 1 /\ x[1].k = "ref" /\ FileOf(flat, x[1]) = ExpectedFile(ch, Len(flat[i].path))

(* every reference leads to a component instance other than the consumer, the relation is acyclic *)
RefsResolve == Compiled => \A i \in DOMAIN flat : \A r \in InstRefs(flat[i]) :
                              HasProducer(flat, r) /\ ProducerOf(flat, r) # flat[i].path /\ r.m # ""
Acyclic == Compiled => CyclicPaths(flat) = {}

(* the relation is the one induced by the output references of the source: every reference of an instance stems  *)
(* from a reference token written in the execute entry of one of its ancestors (or of itself), relative to the   *)
(* workflow instance that contains that entry -- whatever number of parameters it was forwarded through.          *)
RECURSIVE TmplAt(_, _, _)
TmplAt(n, t, path) == IF path = <<>> THEN t ELSE TmplAt(n, StepTmpl(Wf(n, t), path[1]), Tail(path))
Origin(n, inst, r) ==
    \E k \in 0..(Len(inst.path) - 1) :
        LET wpath == SubSeq(inst.path, 1, k)
            w == Wf(n, TmplAt(n, n.entry, wpath))
        IN \E i \in DOMAIN w.exec : /\ w.exec[i].target = inst.path[k + 1]
                                    /\ \E a \in DOMAIN w.exec[i].args : \E t \in RefToks(w.exec[i].args[a].v) : IsPrefix(wpath \o t.segs, r.segs)
RelationInduced == Compiled => \A i \in DOMAIN flat : \A r \in InstRefs(flat[i]) : Origin(ns, flat[i], r)

(* the family is what it claims to be: the unmutated part is valid, a mutation makes the namespace invalid       *)
(* (except where the generic semantics makes it harmless: the parent's producer is also a sibling's name)         *)
ValidPartCompiles == (ch.mut = "none" /\ phase # "src" /\ EsValid(ch.es)) => Compiled
(* an entry parameter without default that neither source sets, or an override naming an unknown parameter *)
EntrySourcesReject == (phase # "src" /\ ~EsValid(ch.es)) => phase = "rejected"
Harmless(c) == c.mut = "nonSibling" /\ c.ml > 1 /\ PName(c.nm, c.ml - 1) = PName(c.nm, c.ml)
MutationsReject == (ch.mut # "none" /\ phase # "src" /\ ~Harmless(ch)) => (phase = "rejected" \/ \A e \in out.errs : e.soft)
RejectedHasLocation == phase = "rejected" => (out.errs # {} /\ \A e \in out.errs : e.alts # {})

(* expected to FAIL (witness of the naming hazard in the model of the implementation's scheme) *)
CodeNamingInjective == Compiled => ~CodeClash(ns)

(* instances annotated for the driver: every reference token with its producer and file path *)
Annot(f, t) == IF t.k = "ref" /\ HasProducer(f, t)
               THEN [k |-> "ref", s |-> "", prod |-> ProducerOf(f, t), file |-> SubSeq(t.segs, Len(ProducerOf(f, t)) + 1, Len(t.segs)), m |-> t.m]
               ELSE [k |-> t.k, s |-> t.s, prod |-> <<>>, file |-> t.segs, m |-> t.m]
EmitInst(f, inst) == [path |-> inst.path, tmpl |-> inst.tmpl, site |-> inst.site, vars |-> Comp(ns, inst.tmpl).vars,
                      args |-> [j \in DOMAIN inst.args |-> Annot(f, inst.args[j])],
                      refs |-> {Annot(f, r) : r \in InstRefs(inst)}]
EmitCase == (Emit /\ phase # "src") =>
              PrintT(ToJson([ch |-> ch, ns |-> ns, verdict |-> phase,
                             flat |-> [i \in DOMAIN flat |-> EmitInst(flat, flat[i])],
                             edges |-> IF Compiled THEN Edges(flat) ELSE {},
                             errs |-> out.errs,
                             clash |-> IF Compiled THEN CodeClash(ns) ELSE FALSE]))
=============================================================================
