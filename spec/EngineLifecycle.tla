--------------------------- MODULE EngineLifecycle ---------------------------
(***************************************************************************)
(* Growth item G01: the launch / termination / state-emission pipeline of  *)
(* ONE non-repeating engine, experiment.runtime.engine.Engine              *)
(* (/repo/python/experiment/runtime/engine.py).                            *)
(*                                                                         *)
(* What is modelled (one named action per rx subscription / critical       *)
(* section of the code):                                                   *)
(*   * the termination subject (ReplaySubject on the trigger pool): kill() *)
(*     puts "Killed" on it; every subscriber receives it by a hop of its   *)
(*     own (DeliverInit: the subscription of __init__ that handles kills   *)
(*     before run(); DeliverGate: the merge in front of the launch         *)
(*     pipeline; DeliverTerm: the post-launch subscription = Terminate);   *)
(*   * run(): subscribe hop (ArmLaunch), start timer + launch delay        *)
(*     (Fire: the start value passes the two take_while gates, or finds    *)
(*     the engine dead), the launch hop (Launch: InitPerformanceInfo,      *)
(*     LaunchTask with the task generator's outcome, SetLaunchTime), the   *)
(*     task-pool hop (WaitStep: Wait / FinalisePerformanceInfo /           *)
(*     HandleTaskExit), the termination subscription made after the launch *)
(*     emission (TermSubscribe), the error path of a kill that closed the  *)
(*     gate (HandleKilled = HandleTaskObservableException);                *)
(*   * restart() re-creating the termination subject and re-entering run();*)
(*   * shutdown();                                                         *)
(*   * the emission path: emit_now() takes a SNAPSHOT of stateDictionary   *)
(*     at the call (+ the caller's overrides) and sends it through a hop   *)
(*     of its own on the 20-thread trigger pool (snaps: snapshots may      *)
(*     overtake each other, Enter(i)); behind the manual emitter everything*)
(*     is FIFO (pipe -> Filter = StateFilter/take_while/do_action of       *)
(*     _create_state_updates -> outq -> Out = the subscriber of            *)
(*     stateUpdates).  The periodic 5 s clock (Tick) reads a fresh         *)
(*     stateDictionary straight into the FIFO part.                        *)
(*                                                                         *)
(* A snapshot is a function from the 16 varying keys of stateDictionary to *)
(* abstract values <<class, detail>>; StateFilter is modelled literally    *)
(* (changed keys; if any "state change" key changed, all of them are       *)
(* bundled), so the specification computes for every delivered update its  *)
(* exact key set and the values of the lifecycle keys.  Time-valued        *)
(* entries are abstracted: <<"td",0>> is a duration that is still ticking  *)
(* (differs from every earlier reading), <<"td",k>> / <<"fl",k>> a frozen  *)
(* timedelta / float of task k.                                            *)
(*                                                                         *)
(* NAMED DEVIATIONS -- behaviour of the code that the "obvious" properties   *)
(* exclude.  They are modelled (the check must not alarm on what the code  *)
(* legitimately or knowingly does), and each has a strong property below   *)
(* that TLC refutes (expected counterexample = witness):                   *)
(*   KillLate             the start value passed the gate, then kill(): the *)
(*                        task is still launched and killed afterwards       *)
(*                        (NoLaunchAfterKillCalled)                          *)
(*   ExitInfoClobber      HandleTaskExit's 2nd emission says engineExitReason*)
(*                        None / engineExitCode <task code> after the exit   *)
(*                        (ReasonNeverClobbered; switch Clobber)             *)
(*   SnapshotOvertaking   emit_now snapshots overtake each other in the      *)
(*                        trigger pool (FirstDeadCarriesReason,              *)
(*                        NoResurrection with Order = "any")                 *)
(*   ClockTickOvertakes   a clock tick reads a fresh stateDictionary straight *)
(*                        into the FIFO part, past snapshots still in their  *)
(*                        hop (NoResurrection with Order = "fifo" + Tick)    *)
(*   SilentRestart        restart() re-enters run() without emitting: a      *)
(*                        restarted execution that ends before the next      *)
(*                        snapshot is invisible to a consumer that tracks    *)
(*                        changes of isAlive (switch RestartEmits; see the   *)
(*                        FakeEngine contract test of harness/checks/g01.py) *)
(*   StaleTerminate       a kill delivered after restart() kills the task of *)
(*                        the NEW execution (WitnessStale)                   *)
(*   StaleInitCompletion  a kill delivered to the __init__ subscription after*)
(*                        restart() completes the NEW termination subject:   *)
(*                        the new execution dies at the gate, or later       *)
(*                        kill() calls are ignored (KillAlwaysHeard)         *)
(*                                                                         *)
(* Modes (constants): Quiet = TRUE is the environment-level view used for  *)
(* the spec -> code direction: the environment acts only in quiescent      *)
(* states, internal work settles in the canonical order of the driver      *)
(* (hops, then Filter/Out, then one snapshot, the blocking wait last), the *)
(* history of environment actions and the observation after each of them   *)
(* are recorded and printed (EmitCase).  Quiet = FALSE is the fine-grained *)
(* model: every interleaving; used for the properties and, through         *)
(* EngineLifecycle_trace.tla, to validate recorded runs of the real engine.*)
(***************************************************************************)
EXTENDS Naturals, Sequences, FiniteSets, TLC, Json

CONSTANTS
  Reasons,     \* exit reasons a task may report
  Kinds,       \* outcomes of the task generator: "ok", "oserror", "launcherror", "exception"
  Order,       \* "any" | "fifo" | "lifo": order in which pending emit_now snapshots enter the manual emitter
  Quiet,       \* TRUE: environment-level behaviours with history (see above)
  Emit,        \* TRUE: print the cases (Quiet mode)
  MaxEnv,      \* Quiet: number of environment actions per behaviour
  MaxKill, MaxTick, MaxRun,   \* bounds: kill() calls, clock ticks, run() calls (1 + restarts that go ahead)
  MaxSnaps,    \* bound on snapshots in flight (state constraint of the fine-grained model)
  RestartEmits,\* FALSE: the code as it is (restart() re-enters run() silently); TRUE: restart() calls emit_now() after run()
  Clobber      \* TRUE: the code as it is (named deviation ExitInfoClobber below); FALSE: the repaired extract_info_from_emission

VARIABLES
  runGen,      \* number of run() calls so far (0: _runCalled is None)
  exitR,       \* engine._exitReason ("none" = None)
  shut,        \* engine._shutdown
  proc,        \* engine.process: 0 = None, k = the task created by the k-th call of the task generator
  talive, treason, tkill,   \* that task: alive, its exit reason, kill() was called on it while alive
  launched, finished,       \* _taskLaunched / _taskFinished: 0 = None, k = set for task k
  nlaunch,     \* calls of the task generator
  restarts,    \* engine.restarts
  rcode,       \* what the last restart() returned ("-" otherwise)
  kval,        \* the current termination subject holds "Killed"
  kdone,       \* the current termination subject is completed (a stopped subject ignores on_next: kill() is lost)
  si, sg, st,  \* subscribers of the termination subject: init / gate / post-launch:  nosub, sub, pend (delivery in flight), off
  stale,       \* a "Killed" delivery to a post-launch subscription of an EARLIER execution is still in flight
  lp,          \* launch pipeline of the current execution: none, sched, armed, started, launched, closed, dead
  lkind,       \* outcome the task generator will have at the next launch
  sw,          \* task-wait subscription: idle, pendWait, pendFail, waiting, done
  lreason,     \* exit reason computed by LaunchTask for a failed launch
  s2,          \* post-launch subscription: idle, pend (launch emission queued: will subscribe to the subject), done
  snaps,       \* snapshots in their trigger-pool hop (sequence in creation order)
  pipe,        \* snapshots behind the manual emitter / clock, FIFO, not yet filtered
  outq,        \* filtered updates on their way to the subscriber, FIFO: <<"update", u, run generation of the snapshot>> or <<"completed">>
  fs,          \* StateFilter's memory: the last snapshot it saw
  fdone,       \* the filter stopped (take_while): manual emitter completed, clock disposed
  done,        \* the subscriber of stateUpdates received on_completed
  cv,          \* consumer's view: last values of isAlive / isShutdown / engineExitReason seen in updates + the run generation
               \* (number of run() calls) of the snapshot that brought the last update
  lastU,       \* the update delivered by the last Out step (<<>> = none in this step)
  nkill, ntick,
  hist, obsq, ups    \* Quiet mode: environment actions so far, observations after each, updates since the last environment action

vars == <<runGen, exitR, shut, proc, talive, treason, tkill, launched, finished, nlaunch, restarts, rcode, kval, kdone, si, sg, st,
          stale, lp, lkind, sw, lreason, s2, snaps, pipe, outq, fs, fdone, done, cv, lastU, nkill, ntick, hist, obsq, ups>>

engineVars == <<runGen, exitR, shut, proc, talive, treason, tkill, launched, finished, nlaunch, restarts>>
subjVars == <<kval, kdone, si, sg, st, stale>>
pipeVars == <<lp, lkind, sw, lreason, s2>>
emitVars == <<snaps, pipe, outq, fs, fdone, done, cv, lastU>>
histVars == <<hist, obsq, ups>>

-----------------------------------------------------------------------------
(* stateDictionary                                                         *)

Keys == {"isAlive", "isShutdown", "creationDate", "isWaitingOnOutput", "outputWaitTime", "isRunning", "runDate",
         "lastTaskLaunchDate", "lastTaskRunTime", "lastTaskRunState", "lastTaskFinishedDate", "lastTaskExitCode",
         "lastTaskExitReason", "engineExitCode", "engineExitReason", "schedulerId"}

(* the keys StateFilter bundles (engine.py: state_change; timeToNextKernelLaunch only exists for repeating engines) *)
StateChange == {"lastTaskRunTime", "lastTaskRunState", "lastTaskExitCode", "lastTaskExitReason", "engineExitCode",
                "engineExitReason", "isAlive"}

V(s) == <<s, 0>>
B(b) == IF b THEN V("T") ELSE V("F")
TICK == <<"td", 0>>

(* return code a task reports for an exit reason (harness.world_g01.RC) *)
TaskRC(r) == CASE r = "Success" -> "0" [] r = "KnownIssue" -> "1" [] r = "ResourceExhausted" -> "24" [] r = "Killed" -> "-9"
               [] r = "Cancelled" -> "-15" [] r = "SystemIssue" -> "130" [] r = "UnknownIssue" -> "-11"
               [] r = "SubmissionFailed" -> "1" [] OTHER -> "?"

(* compute_returncode_from_exit_reason *)
EngineRC(r) == IF r = "none" THEN "None" ELSE IF r = "Success" THEN "0" ELSE "1"

Snap(rg, er, sh, pr, ta, tr, la, fi) ==
  [k \in Keys |->
     CASE k = "isAlive" -> B(er = "none")
       [] k = "isShutdown" -> B(sh)
       [] k = "creationDate" -> IF rg = 0 THEN V("None") ELSE V("d")
       [] k = "isWaitingOnOutput" -> B(rg > 0)
       [] k = "outputWaitTime" -> IF rg = 0 THEN V("N/A")
                                   ELSE IF la = 0 THEN (IF er = "none" THEN TICK ELSE V("N/A"))
                                   ELSE <<"td", la>>
       [] k = "isRunning" -> B(er = "none" /\ rg > 0)
       [] k = "runDate" -> IF rg = 0 THEN V("None") ELSE <<"d", rg>>
       [] k = "lastTaskLaunchDate" -> IF la = 0 THEN V("None") ELSE <<"d", la>>
       [] k = "lastTaskRunTime" -> IF la = 0 THEN V("N/A") ELSE IF fi = 0 THEN TICK ELSE <<"td", fi>>
       [] k = "lastTaskRunState" -> IF pr = 0 THEN V("N/A") ELSE IF ta THEN V("running")
                                     ELSE IF tr = "Success" THEN V("finished") ELSE V("failed")
       [] k = "lastTaskFinishedDate" -> IF fi = 0 THEN V("None") ELSE <<"d", fi>>
       [] k = "lastTaskExitCode" -> IF fi = 0 THEN V("N/A") ELSE V(TaskRC(tr))
       [] k = "lastTaskExitReason" -> IF fi = 0 THEN V("N/A") ELSE V(tr)
       [] k = "engineExitCode" -> V(EngineRC(er))
       [] k = "engineExitReason" -> IF er = "none" THEN V("None") ELSE V(er)
       [] k = "schedulerId" -> IF pr = 0 THEN V("N/A") ELSE <<"sid", pr>>]

Now == Snap(runGen, exitR, shut, proc, talive, treason, launched, finished)

(* NAMED DEVIATION ExitInfoClobber: HandleTaskExit's second emission, emit_now(extract_info_from_emission(..)), overrides     *)
(* the snapshot with engineExitReason = the LAUNCH step's exitReason (None for a task that was launched), engineExitCode =    *)
(* the task's return code and lastTaskRunTime = a float.  The stream therefore says "engineExitReason: None" right after the  *)
(* update that announced the exit; the next snapshot (clock tick, shutdown) restores the value.                               *)
ExitInfo(s, k, r) == IF Clobber
                       THEN [s EXCEPT !["engineExitReason"] = V("None"), !["engineExitCode"] = V(TaskRC(r)), !["lastTaskRunTime"] = <<"fl", k>>]
                       ELSE [s EXCEPT !["lastTaskRunTime"] = <<"fl", k>>]

Changed(old, new) == {k \in Keys : new[k] # old[k] \/ new[k] = TICK}
Filtered(old, new) == LET ch == Changed(old, new) IN IF ch \cap StateChange # {} THEN ch \cup StateChange ELSE ch

(* what the drivers compare: key set + class of every value ("T", "F", "None", reason, code, "d", "td", "fl", "sid") and, *)
(* for scheduler ids, the task number                                                                                          *)
Coarse(k, v) == IF k = "schedulerId" /\ v[1] = "sid" THEN v ELSE <<v[1], 0>>
UpdateOf(s, F) == [k \in F |-> Coarse(k, s[k])]

-----------------------------------------------------------------------------
Init ==
  /\ runGen = 0 /\ exitR = "none" /\ shut = FALSE /\ proc = 0 /\ talive = FALSE /\ treason = "none" /\ tkill = FALSE
  /\ launched = 0 /\ finished = 0 /\ nlaunch = 0 /\ restarts = 0 /\ rcode = "-"
  /\ kval = FALSE /\ kdone = FALSE /\ si = "sub" /\ sg = "nosub" /\ st = "nosub" /\ stale = FALSE
  /\ lp = "none" /\ lkind = "ok" /\ sw = "idle" /\ lreason = "none" /\ s2 = "idle"
  /\ snaps = <<>> /\ pipe = <<>> /\ outq = <<>> /\ fs = Snap(0, "none", FALSE, 0, FALSE, "none", 0, 0)
  /\ fdone = FALSE /\ done = FALSE /\ cv = [alive |-> "T", shut |-> "F", reason |-> "None", gen |-> 0] /\ lastU = <<>>
  /\ nkill = 0 /\ ntick = 0 /\ hist = <<>> /\ obsq = <<>> /\ ups = <<>>

-----------------------------------------------------------------------------
(* quiescence and the canonical settling order of the Quiet mode *)

HopPending == \/ lp \in {"sched", "started", "closed"} \/ si = "pend" \/ sg = "pend" \/ st = "pend" \/ stale \/ s2 = "pend"
              \/ pipe # <<>> \/ outq # <<>>
Quiescent == ~HopPending /\ snaps = <<>> /\ sw \notin {"pendWait", "pendFail"}

HopOK == TRUE
SnapOK == Quiet => ~HopPending
WaitOK == Quiet => (~HopPending /\ snaps = <<>>)
EnvOK == Quiet => (Quiescent /\ Len(hist) < MaxEnv)

Obs == [alive |-> exitR = "none", reason |-> exitR, rc |-> EngineRC(exitR), shut |-> shut, nlaunch |-> nlaunch,
        tkill |-> (tkill /\ talive), talive |-> talive, restarts |-> restarts, done |-> done, rcode |-> rcode, ups |-> ups]

(* an environment action named a: in Quiet mode it closes the previous step's observation *)
Record(a) == IF Quiet THEN /\ hist' = Append(hist, a) /\ obsq' = Append(obsq, Obs) /\ ups' = <<>>
                      ELSE UNCHANGED histVars

Push(ss) == snaps' = snaps \o ss

-----------------------------------------------------------------------------
(* environment *)

(* Engine.run(), first call, on an engine that is alive (ASSUMPTION of this model: the controller does not run() a component *)
(* whose engine was already killed; a kill that was called but not yet delivered is covered: DeliverInit with runGen > 0).  *)
Run ==
  /\ EnvOK /\ runGen = 0 /\ ~shut /\ exitR = "none"
  /\ runGen' = 1 /\ lp' = "sched" /\ rcode' = "-"
  /\ Record("Run")
  /\ UNCHANGED <<exitR, shut, proc, talive, treason, tkill, launched, finished, nlaunch, restarts, subjVars, lkind, sw, lreason, s2,
                 emitVars, nkill, ntick>>

(* Engine.kill(): nothing if dead; otherwise "Killed" goes on the subject and towards every current subscriber *)
KillEffect ==
  IF exitR = "none" /\ ~kval /\ ~kdone
    THEN /\ kval' = TRUE
         /\ si' = IF si = "sub" THEN "pend" ELSE si
         /\ sg' = IF sg = "sub" THEN "pend" ELSE sg
         /\ st' = IF st = "sub" THEN "pend" ELSE st
    ELSE UNCHANGED <<kval, si, sg, st>>

Kill ==
  /\ EnvOK /\ nkill < MaxKill
  /\ KillEffect /\ nkill' = nkill + 1 /\ rcode' = "-"
  /\ Record("Kill")
  /\ UNCHANGED <<engineVars, kdone, stale, pipeVars, emitVars, ntick>>

(* the start timer (1 s) and the launch delay (5 s) elapse: the start value reaches take_while(exitReason() is None). *)
(* kind = what the task generator will do at this launch                                                            *)
Fire(kind) ==
  /\ EnvOK /\ lp = "armed"
  /\ IF exitR = "none" THEN lp' = "started" /\ lkind' = kind ELSE lp' = "closed" /\ UNCHANGED lkind
  /\ Record("Fire:" \o kind)
  /\ UNCHANGED <<engineVars, rcode, subjVars, sw, lreason, s2, emitVars, nkill, ntick>>

(* Quiet mode only: the start value passes the gate, then kill() is called and delivered while the launch hop is still    *)
(* queued (in the fine-grained model this is Fire, Kill, DeliverGate, Launch).  The task IS launched and killed afterwards. *)
FireKL(kind) ==
  /\ Quiet /\ EnvOK /\ lp = "armed" /\ exitR = "none" /\ ~kval /\ ~kdone /\ nkill < MaxKill
  /\ lp' = "started" /\ lkind' = kind
  /\ kval' = TRUE /\ kdone' = (si = "sub") /\ si' = "off" /\ sg' = "off" /\ UNCHANGED <<st, stale>>
  /\ nkill' = nkill + 1 /\ rcode' = "-"
  /\ Record("FireKL:" \o kind)
  /\ UNCHANGED <<engineVars, sw, lreason, s2, emitVars, ntick>>

(* HandleTaskExit (after Wait and FinalisePerformanceInfo) for task k that exited with r: two snapshots *)
HandleExit(k, r) ==
  /\ finished' = k /\ exitR' = r /\ sw' = "done"
  /\ LET s == Snap(runGen, r, shut, proc, FALSE, r, launched, k) IN Push(<<s, ExitInfo(s, k, r)>>)

(* the task ends (the environment decides when and how, also after kill() was called on it).  In the driver the task's *)
(* wait() returns at this moment, so HandleTaskExit runs in the same step if the task-pool hop was already waiting.     *)
TaskExit(r) ==
  /\ EnvOK /\ proc # 0 /\ talive
  /\ talive' = FALSE /\ treason' = r /\ rcode' = "-"
  /\ IF sw = "waiting"
       THEN HandleExit(proc, r)
       ELSE UNCHANGED <<finished, exitR, sw, snaps>>
  /\ Record("Exit:" \o r)
  /\ UNCHANGED <<runGen, shut, proc, tkill, launched, nlaunch, restarts, subjVars, lp, lkind, lreason, s2, pipe, outq, fs, fdone, done, cv, lastU,
                 nkill, ntick>>

(* Engine.restart() on a dead engine that is not shut down (ComponentState.restart refuses after shutdown).  Job without  *)
(* restart hook: budget 3, SubmissionFailed restarts without counting, ResourceExhausted restarts through the DLMESO      *)
(* fallback (IOError -> vanilla restart), anything else is refused.  The termination subject is re-created in every case.  *)
RestartGoes == restarts + 1 <= 3 /\ exitR \in {"SubmissionFailed", "ResourceExhausted"}
Restart ==
  /\ EnvOK /\ exitR # "none" /\ ~shut
  /\ kval' = FALSE /\ kdone' = FALSE /\ si' = (IF si = "pend" THEN "pend" ELSE "off") /\ sg' = "nosub" /\ st' = "nosub"
  /\ stale' = (stale \/ st = "pend" \/ (s2 = "pend" /\ kval))
  /\ IF RestartGoes
       THEN /\ runGen < MaxRun
            /\ restarts' = IF exitR = "ResourceExhausted" THEN restarts + 1 ELSE restarts
            /\ proc' = 0 /\ talive' = FALSE /\ treason' = "none" /\ tkill' = FALSE /\ launched' = 0 /\ finished' = 0
            /\ exitR' = "none" /\ runGen' = runGen + 1
            /\ lp' = "sched" /\ sw' = "idle" /\ s2' = "idle" /\ lreason' = "none"
            /\ rcode' = "RestartInitiated"
            /\ IF RestartEmits THEN Push(<<Snap(runGen + 1, "none", shut, 0, FALSE, "none", 0, 0)>>) ELSE UNCHANGED snaps
       ELSE /\ rcode' = IF restarts + 1 > 3 THEN "RestartMaxAttemptsExceeded" ELSE "RestartCouldNotInitiate"
            /\ s2' = IF s2 = "pend" THEN "done" ELSE s2
            /\ UNCHANGED <<restarts, proc, talive, treason, tkill, launched, finished, exitR, runGen, lp, sw, lreason, snaps>>
  /\ Record("Restart")
  /\ UNCHANGED <<shut, nlaunch, lkind, pipe, outq, fs, fdone, done, cv, lastU, nkill, ntick>>

(* Engine.shutdown() (AssertionError while alive: not an action) *)
Shutdown ==
  /\ EnvOK /\ exitR # "none" /\ ~shut
  /\ shut' = TRUE /\ rcode' = "-"
  /\ Push(<<Snap(runGen, exitR, TRUE, proc, talive, treason, launched, finished)>>)
  /\ Record("Shutdown")
  /\ UNCHANGED <<runGen, exitR, proc, talive, treason, tkill, launched, finished, nlaunch, restarts, subjVars, pipeVars, pipe, outq, fs, fdone, done,
                 cv, lastU, nkill, ntick>>

(* the periodic clock of _detailedState: a fresh stateDictionary goes straight into the FIFO part *)
Tick ==
  /\ EnvOK /\ ~fdone /\ ntick < MaxTick
  /\ pipe' = Append(pipe, Now) /\ ntick' = ntick + 1
  /\ Record("Tick")
  /\ UNCHANGED <<engineVars, rcode, subjVars, pipeVars, snaps, outq, fs, fdone, done, cv, lastU, nkill>>

-----------------------------------------------------------------------------
(* internal steps (one rx hop each) *)

(* the "Killed" value reaches the subscription made in __init__: take_while(_runCalled is None) -> _setExitReason; in every *)
(* case termination_observable_completed() completes self._termination_subject -- the CURRENT one.                         *)
(* NAMED DEVIATION StaleInitCompletion: if the delivery is still in flight when restart() re-created the subject, the NEW    *)
(* subject is completed without a value: a launch pipeline waiting at the gate ends as "Killed", and later kill() calls of   *)
(* this execution are lost (a stopped subject ignores on_next).                                                             *)
DeliverInit ==
  /\ HopOK /\ si = "pend" /\ si' = "off" /\ kdone' = TRUE
  /\ IF runGen = 0
       THEN exitR' = "Killed" /\ Push(<<Snap(runGen, "Killed", shut, proc, talive, treason, launched, finished)>>)
            /\ UNCHANGED <<sg, st, lp>>
       ELSE /\ UNCHANGED <<exitR, snaps>>
            /\ IF kval \/ kdone THEN UNCHANGED <<sg, st, lp>>
               ELSE /\ sg' = IF sg = "sub" THEN "off" ELSE sg
                    /\ st' = IF st = "sub" THEN "off" ELSE st
                    /\ lp' = IF sg = "sub" /\ lp = "armed" THEN "closed" ELSE lp
  /\ UNCHANGED <<runGen, shut, proc, talive, treason, tkill, launched, finished, nlaunch, restarts, rcode, kval, stale, lkind, sw, lreason, s2,
                 pipe, outq, fs, fdone, done, cv, lastU, nkill, ntick, histVars>>

(* subscribe_on hop + merge: the launch pipeline subscribes to the termination subject (replay!) and starts the timers *)
ArmLaunch ==
  /\ HopOK /\ lp = "sched"
  /\ IF kdone /\ ~kval THEN lp' = "closed" /\ sg' = "off"          \* a completed, empty subject (StaleInitCompletion)
                       ELSE lp' = "armed" /\ sg' = IF kval THEN "pend" ELSE "sub"
  /\ UNCHANGED <<engineVars, rcode, kval, kdone, si, st, stale, lkind, sw, lreason, s2, emitVars, nkill, ntick, histVars>>

(* "Killed" reaches the gate: if the start value has not passed yet the pipeline completes empty -> error path *)
DeliverGate ==
  /\ HopOK /\ sg = "pend" /\ sg' = "off"
  /\ lp' = IF lp = "armed" THEN "closed" ELSE lp
  /\ UNCHANGED <<engineVars, rcode, kval, kdone, si, st, stale, lkind, sw, lreason, s2, emitVars, nkill, ntick, histVars>>

(* the launch hop: InitPerformanceInfo, LaunchTask (task generator), SetLaunchTime; the emission is published to the task-wait *)
(* subscription and to the post-launch termination subscription                                                            *)
Launch ==
  /\ HopOK /\ lp = "started" /\ lp' = "launched" /\ nlaunch' = nlaunch + 1 /\ s2' = "pend"
  /\ IF lkind = "ok"
       THEN /\ proc' = nlaunch + 1 /\ talive' = TRUE /\ treason' = "none" /\ tkill' = FALSE /\ launched' = nlaunch + 1
            /\ sw' = "pendWait" /\ UNCHANGED lreason
            /\ Push(<<Snap(runGen, exitR, shut, nlaunch + 1, TRUE, "none", 0, finished),          \* LaunchTask: emit_now()
                      Snap(runGen, exitR, shut, nlaunch + 1, TRUE, "none", nlaunch + 1, finished)>>)  \* SetLaunchTime: emit_now()
       ELSE /\ sw' = "pendFail"
            /\ lreason' = IF lkind \in {"oserror", "launcherror"} THEN "SubmissionFailed" ELSE "UnknownIssue"
            /\ Push(<<Now>>)                                                                       \* SetLaunchTime only
            /\ UNCHANGED <<proc, talive, treason, tkill, launched>>
  /\ UNCHANGED <<runGen, exitR, shut, finished, restarts, rcode, subjVars, lkind, pipe, outq, fs, fdone, done, cv, lastU, nkill, ntick, histVars>>

(* the task-pool hop: Wait (blocks while the task lives), FinalisePerformanceInfo, HandleTaskExit *)
WaitStep ==
  /\ WaitOK /\ sw \in {"pendWait", "pendFail"}
  /\ IF sw = "pendWait"
       THEN IF talive THEN sw' = "waiting" /\ UNCHANGED <<finished, exitR, snaps>>
                      ELSE HandleExit(proc, treason)
       ELSE /\ exitR' = lreason /\ sw' = "done" /\ UNCHANGED finished
            /\ LET s == Snap(runGen, lreason, shut, proc, talive, treason, launched, finished) IN Push(<<s, s>>)
  /\ UNCHANGED <<runGen, shut, proc, talive, treason, tkill, launched, nlaunch, restarts, rcode, subjVars, lp, lkind, lreason, s2,
                 pipe, outq, fs, fdone, done, cv, lastU, nkill, ntick, histVars>>

(* after the launch emission the post-launch subscription subscribes to the termination subject (concat; replay!) *)
TermSubscribe ==
  /\ HopOK /\ s2 = "pend" /\ s2' = "done"
  /\ st' = IF kval THEN "pend" ELSE IF kdone THEN "off" ELSE "sub"
  /\ UNCHANGED <<engineVars, rcode, kval, kdone, si, sg, stale, lp, lkind, sw, lreason, emitVars, nkill, ntick, histVars>>

(* Terminate: kill the CURRENT self.process (no-op on a dead task), emit.                                                  *)
(* NAMED DEVIATION StaleTerminate: a delivery that belongs to an earlier execution (kill() before the task exited by itself, *)
(* restart() before the delivery ran) kills the task of the restarted execution.                                            *)
TerminateEffect ==
  /\ tkill' = IF proc # 0 /\ talive THEN TRUE ELSE tkill
  /\ Push(<<Now>>)
DeliverTerm ==
  /\ HopOK /\ st = "pend" /\ st' = "off" /\ TerminateEffect
  /\ UNCHANGED <<runGen, exitR, shut, proc, talive, treason, launched, finished, nlaunch, restarts, rcode, kval, kdone, si, sg, stale, pipeVars,
                 pipe, outq, fs, fdone, done, cv, lastU, nkill, ntick, histVars>>
DeliverStale ==
  /\ HopOK /\ stale /\ stale' = FALSE /\ TerminateEffect
  /\ UNCHANGED <<runGen, exitR, shut, proc, talive, treason, launched, finished, nlaunch, restarts, rcode, kval, kdone, si, sg, st, pipeVars,
                 pipe, outq, fs, fdone, done, cv, lastU, nkill, ntick, histVars>>

(* HandleTaskObservableException with SequenceContainsNoElementsError: the gate was closed before the start value *)
HandleKilled ==
  /\ HopOK /\ lp = "closed" /\ lp' = "dead"
  /\ exitR' = "Killed" /\ kdone' = TRUE
  /\ LET s == Snap(runGen, "Killed", shut, proc, talive, treason, launched, finished) IN Push(<<s, s>>)
  /\ UNCHANGED <<runGen, shut, proc, talive, treason, tkill, launched, finished, nlaunch, restarts, rcode, kval, si, sg, st, stale, lkind, sw,
                 lreason, s2, pipe, outq, fs, fdone, done, cv, lastU, nkill, ntick, histVars>>

(* a snapshot leaves the trigger pool and enters the manual emitter *)
EnterIdx == IF snaps = <<>> THEN {} ELSE
            CASE Order = "fifo" -> {1} [] Order = "lifo" -> {Len(snaps)} [] OTHER -> 1..Len(snaps)
Enter(i) ==
  /\ SnapOK /\ i \in EnterIdx
  /\ snaps' = [j \in 1..(Len(snaps) - 1) |-> IF j < i THEN snaps[j] ELSE snaps[j + 1]]
  /\ pipe' = IF fdone THEN pipe ELSE Append(pipe, snaps[i])
  /\ UNCHANGED <<engineVars, rcode, subjVars, pipeVars, outq, fs, fdone, done, cv, lastU, nkill, ntick, histVars>>

(* StateFilter, take_while(not stop_emitting), do_action(may_trigger_final_emission), filter(non-empty) *)
Filter ==
  /\ HopOK /\ pipe # <<>> /\ pipe' = Tail(pipe)
  /\ IF fdone THEN UNCHANGED <<fs, fdone, outq, snaps>>
     ELSE LET s == Head(pipe)
              F == Filtered(fs, s) IN
          /\ fs' = s
          /\ IF s["isShutdown"] = V("T") /\ F = {}
               THEN fdone' = TRUE /\ outq' = Append(outq, <<"completed">>) /\ UNCHANGED snaps
               ELSE /\ UNCHANGED fdone
                    /\ IF "isShutdown" \in F /\ s["isShutdown"] = V("T") THEN Push(<<Now>>) ELSE UNCHANGED snaps
                    /\ outq' = IF F = {} THEN outq ELSE Append(outq, <<"update", UpdateOf(s, F), s["runDate"][2]>>)
  /\ UNCHANGED <<engineVars, rcode, subjVars, pipeVars, done, cv, lastU, nkill, ntick, histVars>>

(* the subscriber of engine.stateUpdates receives *)
Out ==
  /\ HopOK /\ outq # <<>> /\ outq' = Tail(outq)
  /\ LET m == Head(outq) IN
     IF m[1] = "completed"
       THEN done' = TRUE /\ lastU' = <<>> /\ UNCHANGED <<cv, ups>>
       ELSE LET u == m[2] IN
            /\ lastU' = <<u>>
            /\ cv' = [alive |-> IF "isAlive" \in DOMAIN u THEN u["isAlive"][1] ELSE cv.alive,
                      shut |-> IF "isShutdown" \in DOMAIN u THEN u["isShutdown"][1] ELSE cv.shut,
                      reason |-> IF "engineExitReason" \in DOMAIN u THEN u["engineExitReason"][1] ELSE cv.reason,
                      gen |-> m[3]]
            /\ ups' = IF Quiet THEN Append(ups, u) ELSE ups
            /\ UNCHANGED done
  /\ UNCHANGED <<engineVars, rcode, subjVars, pipeVars, snaps, pipe, fs, fdone, nkill, ntick, hist, obsq>>

Internal == \/ DeliverInit \/ ArmLaunch \/ DeliverGate \/ Launch \/ WaitStep \/ TermSubscribe \/ DeliverTerm \/ DeliverStale
            \/ HandleKilled \/ Filter \/ Out \/ \E i \in 1..MaxSnaps : Enter(i)

Env == \/ Run \/ Kill \/ Restart \/ Shutdown \/ Tick
       \/ \E k \in Kinds : (Fire(k) \/ FireKL(k))
       \/ \E r \in Reasons : TaskExit(r)

Next == Internal \/ Env

Spec == Init /\ [][Next]_vars

(* fairness: every rx hop eventually runs, time passes (the start value arrives), a task on which kill() was called ends *)
Fairness == /\ WF_vars(Internal)
            /\ WF_vars(\E k \in Kinds : Fire(k))
            /\ WF_vars(tkill /\ \E r \in Reasons : TaskExit(r))
FairSpec == Spec /\ Fairness

Bound == Len(snaps) <= MaxSnaps /\ Len(pipe) <= MaxSnaps /\ Len(outq) <= MaxSnaps

-----------------------------------------------------------------------------
(* properties *)

TypeOK ==
  /\ runGen \in 0..MaxRun /\ exitR \in Reasons \cup {"none", "Killed", "SubmissionFailed", "UnknownIssue"}
  /\ shut \in BOOLEAN /\ proc \in 0..nlaunch /\ launched \in {0, proc} /\ finished \in {0, proc}
  /\ lp \in {"none", "sched", "armed", "started", "launched", "closed", "dead"}
  /\ sw \in {"idle", "pendWait", "pendFail", "waiting", "done"}
  /\ si \in {"sub", "pend", "off"} /\ sg \in {"nosub", "sub", "pend", "off"} /\ st \in {"nosub", "sub", "pend", "off"}

(* a task is only alive inside an execution that launched it, and the engine is alive while its task is being waited for *)
TaskInsideExecution == (proc # 0 /\ talive /\ sw = "waiting") => exitR = "none"

(* shutdown() is only possible on a dead engine and nothing revives it afterwards *)
ShutdownIsFinal == shut => exitR # "none"
ShutAbsorbing == [][shut => (shut' /\ exitR' = exitR)]_vars

(* the exit reason is set once per execution: it only changes by restart() (to None, with a new run) *)
ReasonStable == [][(exitR # "none" /\ exitR' # exitR) => (exitR' = "none" /\ runGen' = runGen + 1)]_vars

(* no task is launched once the kill closed the gate *)
NoLaunchAfterGateClosed == [][(lp \in {"closed", "dead"}) => nlaunch' = nlaunch]_vars
(* STRONGER, NOT satisfied (by design of the pipeline: FireKL): no launch after kill() was called *)
NoLaunchAfterKillCalled == [][(kval /\ lp # "launched") => nlaunch' = nlaunch]_vars

(* at most one task generator call per run() *)
OneLaunchPerRun == nlaunch <= runGen

(* the update stream: the update that first tells a consumer isAlive=False carries the exit reason.                        *)
(* Holds when snapshots keep their order (Order = "fifo"); NOT with overtaking snapshots (ExitInfoClobber first).          *)
IsDeadNews(u) == "isAlive" \in DOMAIN u /\ u["isAlive"][1] = "F"
FirstDeadCarriesReason ==
  [][(lastU' # <<>> /\ Len(outq') < Len(outq) /\ IsDeadNews(lastU'[1]) /\ cv.alive = "T")
       => ("engineExitReason" \in DOMAIN lastU'[1] /\ lastU'[1]["engineExitReason"][1] # "None")]_vars

(* once a consumer saw isAlive=False no update says isAlive=True unless a restart happened in between (fifo only) *)
NoResurrection ==
  [][(lastU' # <<>> /\ Len(outq') < Len(outq) /\ "isAlive" \in DOMAIN lastU'[1] /\ lastU'[1]["isAlive"][1] = "T" /\ cv.alive = "F")
       => cv'.gen > cv.gen]_vars

(* STRONGER, NOT satisfied even in order (ExitInfoClobber): an update never reports engineExitReason None while the engine is dead *)
ReasonNeverClobbered ==
  [][(lastU' # <<>> /\ Len(outq') < Len(outq) /\ "engineExitReason" \in DOMAIN lastU'[1] /\ lastU'[1]["engineExitReason"][1] = "None")
       => (exitR = "none" \/ cv.alive = "T")]_vars

(* after completion nothing is delivered *)
CompletedIsFinal == [][done => (done' /\ lastU' = <<>>)]_vars
(* the stream only completes after shutdown() *)
CompleteOnlyAfterShutdown == done => shut

(* liveness (FairSpec): a kill on a live engine ends in a dead engine; after shutdown() the stream completes; the consumer *)
(* eventually learns that the engine is dead                                                                              *)
KillLeadsToDead == (kval /\ exitR = "none") ~> (exitR # "none")
(* STRONGER, NOT satisfied when restarts are possible (StaleInitCompletion): every kill() on a live engine takes effect *)
KillAlwaysHeard == [][(nkill' = nkill + 1 /\ exitR = "none") => kval']_vars
ShutdownLeadsToCompletion == shut ~> done
DeadEventuallyKnown == (shut /\ exitR # "none") ~> (cv.alive = "F" \/ done)

-----------------------------------------------------------------------------
(* Quiet mode: the cases handed to the conformance driver *)

EnvEnabled == \/ (runGen = 0 /\ ~shut /\ exitR = "none") \/ nkill < MaxKill \/ lp = "armed" \/ (proc # 0 /\ talive)
              \/ (exitR # "none" /\ ~shut /\ (RestartGoes => runGen < MaxRun)) \/ (~fdone /\ ntick < MaxTick)
EmitCase ==
  (Emit /\ Quiet /\ Quiescent /\ (Len(hist) = MaxEnv \/ ~EnvEnabled))
    => PrintT(ToJson([hist |-> hist, obs |-> Append(obsq, Obs), order |-> Order]))

(* vacuity guards: witnesses *)
WitnessRestartedKilled == ~(runGen = 2 /\ exitR = "Killed" /\ nlaunch = 2)
WitnessCompleted == ~done
WitnessStale == ~(stale /\ runGen = 2 /\ talive)
=============================================================================
