----------------------------- MODULE References -----------------------------
(***************************************************************************)
(* C09 -- Data references parse, print and classify consistently.          *)
(*                                                                         *)
(* A data reference is the string  [stage<N>.]<producer>[/<file>]:<method> *)
(* that a component lists under `references` (FlowIR.ParseDataReference*,  *)
(* ParseProducerReference, compile_reference, graph.DataReference,         *)
(* ComponentIdentifier, expand_potential_component_reference,              *)
(* is_datareference_to_component, Manifest.top_level_folders).             *)
(*                                                                         *)
(* Strings.  TLC has no characters, so a string is modelled as the         *)
(* sequence of its TOKENS: the three separators ".", "/", ":" and WORDS    *)
(* (maximal runs of other characters, e.g. "foo", "stage1", "stage1x",     *)
(* "0#x", "a-b", "%(v)s", "*").  The concrete string is the concatenation  *)
(* of the tokens (done by the driver), so all relations between strings    *)
(* that the grammar can see -- where the first ".", the first "/", the     *)
(* last "/" and the ":" are, and whether the word before the first "." is  *)
(* exactly stage<N> -- are visible to the model, and the look-alikes       *)
(* ("stage1x", "xstage1", "stage", "datax", "name0") are different words.  *)
(*                                                                         *)
(* The module has four layers:                                             *)
(*  1. the grammar: PrintRef (= compile_reference) and the parsers            *)
(*     ParseDR / ParsePR / ParseFull as the code documents them;           *)
(*  2. the package context (known components, manifest keys, application   *)
(*     dependencies) and the DECLARATIVE classification taken literally    *)
(*     from the statement of C09 (DirectByStatement / ComponentByStatement)*)
(*  3. the life cycle of one reference as a state machine: authored ->     *)
(*     written (PrintRef) -> read (Parse) -> expanded -> re-expanded under    *)
(*     any other stage context (the loader, the validator and replication  *)
(*     each expand the same reference list again);                         *)
(*  4. the properties of C09 as invariants / action properties, and the    *)
(*     emission of one case per (reference, consumer stage, context) with  *)
(*     every expected result, for the conformance driver.                  *)
(***************************************************************************)
EXTENDS Integers, Sequences, FiniteSets, TLC, Json

CONSTANTS Names,        \* producer names (token sequences) a component may have
          Files,        \* file paths below a producer (token sequences; <<>> = no file)
          Methods,      \* reference methods
          Contexts,     \* sequence of package contexts (records, see CtxOK)
          Priors,       \* indices of contexts of a package that was inspected EARLIER in the same process (0 = none)
          Leaky,        \* TRUE: the named deviation "inspecting a package leaves its folders reserved" (see InspectOther)
          Emit          \* TRUE: print one JSON case per initial state

NoStage == -1                               \* "None" of the implementation (a cfg/TLC set cannot mix strings and integers)
StageNum == ("stage0" :> 0) @@ ("stage1" :> 1) @@ ("stage12" :> 12)    \* the words that ARE stage prefixes
StageWords == DOMAIN StageNum
Stages == {StageNum[w] : w \in StageWords}
StageWord(n) == CHOOSE w \in StageWords : StageNum[w] = n

Reserved == {"input", "data", "bin", "conf"}      \* FlowIR.SpecialFolders
ReservedSeqs == {<<w>> : w \in Reserved}
(* A variable reference %(name)s is a token of its own: it may stand alone or be glued to literal text          *)
(* ("results-" "%(v)s"), so "the segment contains a variable" is visible to the model.                           *)
VarWords == {"%(v)s", "%(w)s"}

(* ---------------------------------------------------------------------- *)
(* token-sequence helpers                                                   *)
Pos(s, t)    == {i \in 1..Len(s) : s[i] = t}
Count(s, t)  == Cardinality(Pos(s, t))
Has(s, t)    == Pos(s, t) # {}
FirstPos(s, t) == CHOOSE i \in Pos(s, t) : \A j \in Pos(s, t) : i <= j
LastPos(s, t)  == CHOOSE i \in Pos(s, t) : \A j \in Pos(s, t) : i >= j
Before(s, i) == SubSeq(s, 1, i - 1)
After(s, i)  == SubSeq(s, i + 1, Len(s))
FirstSegment(s) == IF Has(s, "/") THEN Before(s, FirstPos(s, "/")) ELSE s     \* text before the first "/"
IsVar(s) == \E i \in 1..Len(s) : s[i] \in VarWords

(* ---------------------------------------------------------------------- *)
(* 1. Grammar                                                               *)
(* An abstract reference: stage (NoStage = relative spelling / no stage), producer, file, method *)

(* compile_reference(producer, filename, method, stage_index) / DataReference.absoluteReference|relativeReference *)
(* The file part has three states: none (<<>>: "producer:method"), EMPTY (EmptyFile: "producer/:method" -- the   *)
(* working directory itself, written with a trailing slash; the implementation keeps '' apart from None) and a    *)
(* path.  EmptyFile is a value of the model, not text: it prints as nothing after the "/".                        *)
EmptyFile == <<"">>
FileText(f) == IF f = EmptyFile THEN <<>> ELSE f
FileOfText(t) == IF t = <<>> THEN EmptyFile ELSE t         \* the text after the "/" that separates producer and file
PrintRef(r) == (IF r.stage = NoStage THEN <<>> ELSE <<StageWord(r.stage), ".">>)
            \o r.prod
            \o (IF r.file = <<>> THEN <<>> ELSE <<"/">> \o FileText(r.file))
            \o <<":", r.method>>

(* ParseDataReference: (producer reference, file, method).                                            *)
(*   exactly one ":"; an absolute path is split at its LAST "/", anything else at its FIRST "/",      *)
(*   except that a path below a reserved folder is not split at all (file = none).                    *)
(*   The reserved folders are a PROCESS-WIDE table (FlowIR.SpecialFolders); ...With(.., res) reads it. *)
ParseDRWith(s, res) ==
  LET k == FirstPos(s, ":")
      body == Before(s, k)
      meth == After(s, k)
  IN IF body[1] = "/"
       THEN LET j == LastPos(body, "/") IN
            [pref |-> IF j = 1 THEN <<"/">> ELSE Before(body, j), file |-> FileOfText(After(body, j)), method |-> meth[1]]
     ELSE IF ~Has(body, "/")
       THEN [pref |-> body, file |-> <<>>, method |-> meth[1]]
     ELSE LET j == FirstPos(body, "/") IN
          IF Before(body, j) \in res
            THEN [pref |-> body, file |-> <<>>, method |-> meth[1]]
            ELSE [pref |-> Before(body, j), file |-> FileOfText(After(body, j)), method |-> meth[1]]
ParseDR(s) == ParseDRWith(s, ReservedSeqs)
Parsable(s) == Count(s, ":") = 1 /\ FirstPos(s, ":") > 1 /\ Len(After(s, FirstPos(s, ":"))) = 1

(* ParseProducerReference(reference, index): (stage, name, hasIndex).                                  *)
(*   "A producer reference string has form ($stageName).$producerName ... Must be stage$i": the text   *)
(*   before the first "." is a stage prefix only when it IS the word stage<N> -- "stage1x" is not.     *)
ParsePR(p, idx) ==
  IF p[1] = "/" \/ ~Has(p, ".")
    THEN [stage |-> idx, name |-> p, has |-> FALSE]
  ELSE LET j == FirstPos(p, ".")
           head == Before(p, j)
       IN IF Len(head) = 1 /\ head[1] \in StageWords
            THEN [stage |-> StageNum[head[1]], name |-> After(p, j), has |-> TRUE]
            ELSE [stage |-> idx, name |-> p, has |-> FALSE]

(* ParseDataReferenceFull(value, index, application_dependencies, special_folders): the stage is      *)
(* none for a reference that is not to a component (folders = reserved + app-dep names + top-level)   *)
ParseFullWith(s, idx, folders, res) ==
  LET d == ParseDRWith(s, res)
      q == ParsePR(d.pref, idx)
      direct == (~q.has /\ (q.name \in folders \cup res \/ Has(q.name, "/"))) \/ IsVar(q.name)
  IN [stage |-> IF direct THEN NoStage ELSE q.stage, prod |-> q.name, file |-> d.file, method |-> d.method]
ParseFull(s, idx, folders) == ParseFullWith(s, idx, folders, ReservedSeqs)

(* the parts of a string with no context at all (inverse of PrintRef) *)
ParseAbs(s) == LET d == ParseDR(s)
                   q == ParsePR(d.pref, NoStage)
               IN [stage |-> q.stage, prod |-> q.name, file |-> d.file, method |-> d.method]

(* ---------------------------------------------------------------------- *)
(* 2. Context and classification                                            *)
(* ctx = [mode : which components exist ("all": every name in every stage, "none", "stage0": only in *)
(*        stage 0, "not0": in every stage but 0 -- always except the names that are folders),           *)
(*        keys : set of manifest keys (relative paths),                                                 *)
(*        deps : set of application dependencies ("name", "name.ext", "/abs/name.ext"),                 *)
(*        folders : FoldersOf(keys, deps)]                                                               *)

(* Manifest.top_level_folders: "manifest can include keys which describe nested folders. Extract the  *)
(* left-most folders out of such keys"                                                                *)
TopLevel(keys) == {FirstSegment(k) : k \in keys}

(* FlowIR.application_dependency_to_name: drop the leading path and the trailing extension            *)
DepName(dd) == LET d == IF dd[Len(dd)] = "/" THEN Before(dd, Len(dd)) ELSE dd      \* a trailing "/" does not count
                   base == IF d[1] = "/" THEN After(d, LastPos(d, "/")) ELSE d
               IN IF Has(base, ".") THEN Before(base, LastPos(base, ".")) ELSE base
DepNames(deps) == {DepName(d) : d \in deps}

FoldersOf(keys, deps) == ReservedSeqs \cup TopLevel(keys) \cup DepNames(deps)
Folders(ctx) == ctx.folders       \* = FoldersOf(ctx.keys, ctx.deps), computed once per context (see CtxOK)
(* the known components of a context: <<st, nm>> exists *)
KnownIn(ctx, st, nm) == /\ nm \in Names /\ nm \notin ctx.folders /\ st \in Stages
                        /\ CASE ctx.mode = "all" -> TRUE [] ctx.mode = "none" -> FALSE
                              [] ctx.mode = "stage0" -> st = 0 [] OTHER -> st # 0
KnownSet(ctx) == {k \in Stages \X Names : KnownIn(ctx, k[1], k[2])}

Body(s) == Before(s, FirstPos(s, ":"))
(* The statement of C09, literally: "A reference whose first path segment is a reserved folder, an    *)
(* application dependency, a top-level or manifest folder of the package, an absolute path or a       *)
(* variable is never treated as a reference to a component ..."                                       *)
DirectByStatement(s, ctx) ==
  LET b == Body(s) IN
  \/ b[1] = "/"
  \/ FirstSegment(b) \in Folders(ctx)
  \/ IsVar(FirstSegment(b))      \* "a variable": the implementation documents (ParseDataReferenceFull,
                                  \* expand_potential_component_reference: "references whose producer is a variable
                                  \* reference") and implements it as: the segment CONTAINS %(name)s anywhere --
                                  \* such a producer is only known once the variable is resolved
(* "... and every other reference whose producer is a known component is."  The producer of a         *)
(* relative spelling is looked up in the stage of the consumer (n).                                    *)
Producer(s, n) == LET p == ParseAbs(s) IN <<IF p.stage = NoStage THEN n ELSE p.stage, p.prod>>
ComponentByStatement(s, n, ctx) == ~DirectByStatement(s, ctx) /\ KnownIn(ctx, Producer(s, n)[1], Producer(s, n)[2])
Class(s, n, ctx) == IF DirectByStatement(s, ctx) THEN "direct"
                    ELSE IF ComponentByStatement(s, n, ctx) THEN "component" ELSE "unspecified"

(* expand_component_references / expand_potential_component_reference with the folders of the package:*)
(* a reference that is not direct is rewritten to its absolute spelling, a direct one is left alone.   *)
ExpandWith(s, n, ctx, res) ==
  LET p == ParseFullWith(s, NoStage, res, res)       \* the function first parses without any context
      maybe == IF p.stage = NoStage THEN n ELSE p.stage
      direct == (p.stage = NoStage /\ p.prod \in Folders(ctx) \cup res) \/ Has(p.prod, "/")
  IN IF IsVar(p.prod) THEN s
     ELSE IF direct /\ ~KnownIn(ctx, maybe, p.prod) THEN s
     ELSE PrintRef([stage |-> maybe, prod |-> p.prod, file |-> p.file, method |-> p.method])
Expand(s, n, ctx) == ExpandWith(s, n, ctx, ReservedSeqs)

(* ---------------------------------------------------------------------- *)
(* Input space: canonical abstract references                               *)
ReservedBodies == ReservedSeqs
                  \cup {<<w, "/", "f", ".", "txt">> : w \in Reserved}
                  \cup {<<"data", "/", "d", "/", "f", ".", "txt">>, <<"data", "/", "stage1", ".", "x">>,
                        <<"input", "/", "stage1x", ".", "foo">>, <<"data", "/", "in-", "%(v)s", ".", "txt">>,
                        <<"data", "/">>, <<"bin", "/", "d", "/">>}
AbsBodies == {<<"/", "abs", "/", "p">>, <<"/", "abs", "/", "stage1", ".", "p">>, <<"/", "data">>}
(* producers with a variable at the start, in the middle, at the end of the first segment, glued to text,    *)
(* dashes, digits, next to a dot, two variables, and behind a look-alike of a stage prefix                     *)
VarBodies == {<<"%(v)s">>, <<"%(v)s", "-cache">>, <<"results-", "%(v)s">>, <<"pre_", "%(v)s", "_post">>,
              <<"run7", "%(v)s">>, <<"v2", ".", "%(v)s">>, <<"%(v)s", ".", "d">>,
              <<"%(v)s", "%(w)s">>, <<"a-", "%(v)s", "-", "%(w)s">>, <<"stage1", "%(v)s", ".", "x">>}
Prods == Names \cup ReservedBodies \cup AbsBodies \cup VarBodies

(* a name is words joined by "."; if it has several segments the first one is not a stage word       *)
(* (the relative spelling of such a name IS an absolute reference: the grammar cannot tell)           *)
WFName(nm) == /\ Len(nm) >= 1 /\ nm[1] \notin {".", "/", ":"} /\ nm[Len(nm)] \notin {".", "/", ":"}
              /\ ~Has(nm, "/") /\ ~Has(nm, ":")
              /\ \A i \in 1..(Len(nm) - 1) : ~(nm[i] = "." /\ nm[i + 1] = ".")
              /\ (Has(nm, ".") => nm[1] \notin StageWords)
              /\ nm \notin ReservedSeqs /\ ~IsVar(nm)

(* the canonical form: what Parse gives back for the string of the reference                          *)
Canonical(r) ==
  \/ r.prod \in Names
  \/ r.prod \in ReservedBodies /\ r.stage = NoStage /\ r.file = <<>>             \* never split
  \/ r.prod \in AbsBodies /\ r.stage = NoStage /\ r.file # <<>> /\ ~Has(r.file, "/")   \* split at the last "/"
  \/ r.prod \in VarBodies /\ r.stage = NoStage
Refs == {r \in [stage : {NoStage} \cup Stages, prod : Prods, file : Files, method : Methods] : Canonical(r)}

(* a context is well formed when no known component is called like a folder of the package            *)
(* ("we consider that components cannot have the same name as a special folder")                      *)
(* Application dependencies are given PER PLATFORM in the package: application-dependencies: {default: [...],    *)
(* <platform>: [...]}.  doc = [default : set, has : BOOLEAN (the active platform has its own entry), other : set]. *)
(* The dependencies that hold for the loaded platform: the platform's own entry when it has one -- an explicitly    *)
(* EMPTY list means "none" --, the default platform's entry when it has none.                                        *)
EffectiveDeps(doc, platform) == IF platform = "default" THEN doc.default
                                ELSE IF doc.has THEN doc.other ELSE doc.default
(* named deviation (not used by the model): an empty entry is mistaken for a missing one *)
EffectiveDepsFalsy(doc, platform) == IF platform # "default" /\ doc.has /\ doc.other # {} THEN doc.other ELSE
                                     IF platform = "default" THEN doc.default ELSE doc.default
CtxOK(ctx) == /\ ctx.folders = FoldersOf(ctx.keys, ctx.deps)
              /\ ctx.deps = EffectiveDeps(ctx.doc, ctx.platform) /\ ctx.platform \in {"default", "other"}
              /\ ctx.mode \in {"all", "none", "stage0", "not0"}
              /\ \A k \in KnownSet(ctx) : k[2] \notin Folders(ctx)
ASSUME \A nm \in Names : WFName(nm)
ASSUME \A i \in 1..Len(Contexts) : CtxOK(Contexts[i])

(* ---------------------------------------------------------------------- *)
(* 3. Life cycle of one reference                                           *)
VARIABLES r,        \* the abstract reference as authored
          n,        \* stage of the consuming component
          c,        \* index of the package context
          phase,    \* "authored" -> "written" -> "read" -> "expanded" -> "reexpanded"
          text,     \* the reference string (tokens) once written
          parts,    \* result of parsing text in the context
          abs,      \* the expanded string
          prev,     \* the expanded string before the last re-expansion (history variable)
          prior,    \* context of a package inspected earlier in this process (0: none) -- the two-step histories
          process   \* the process-wide table of reserved folders that every parser consults
vars == <<r, n, c, phase, text, parts, abs, prev, prior, process>>
Ctx == Contexts[c]   \* (Contexts is a constant: TLC evaluates it once)
None == <<>>

Init == /\ r \in Refs /\ n \in Stages /\ c \in 1..Len(Contexts) /\ prior \in Priors
        /\ phase = (IF prior = 0 THEN "authored" ELSE "fresh")
        /\ text = None /\ parts = None /\ abs = None /\ prev = None /\ process = ReservedSeqs

(* Step one of a two-step history: the same process first classifies / expands references of ANOTHER package, *)
(* passing that package's folders to the functions.  Reads do not write: the process-wide table stays as it    *)
(* is.  (Leaky = the named deviation: the folders handed to the call are appended to the table for good.)      *)
InspectOther == /\ phase = "fresh" /\ phase' = "authored"
                /\ process' = IF Leaky THEN process \cup Folders(Contexts[prior]) ELSE process
                /\ UNCHANGED <<r, n, c, text, parts, abs, prev, prior>>

Write == /\ phase = "authored" /\ phase' = "written"
         /\ text' = PrintRef(r)
         /\ UNCHANGED <<r, n, c, parts, abs, prev, prior, process>>
Read == /\ phase = "written" /\ phase' = "read"
        /\ parts' = ParseFullWith(text, n, Folders(Ctx), process)
        /\ UNCHANGED <<r, n, c, text, abs, prev, prior, process>>
ExpandRef == /\ phase = "read" /\ phase' = "expanded"
             /\ abs' = ExpandWith(text, n, Ctx, process)
             /\ UNCHANGED <<r, n, c, text, parts, prev, prior, process>>
(* a later pass expands the already expanded list again, possibly on behalf of another stage *)
ReExpand(m) == /\ phase = "expanded" /\ phase' = "reexpanded"
               /\ abs' = ExpandWith(abs, m, Ctx, process) /\ prev' = abs
               /\ UNCHANGED <<r, n, c, text, parts, prior, process>>
Next == InspectOther \/ Write \/ Read \/ ExpandRef \/ \E m \in {0, 1, 12} : ReExpand(m)
Stutter == UNCHANGED vars
Spec == Init /\ [][Next]_vars

(* ---------------------------------------------------------------------- *)
(* 4. Properties of C09 (each is evaluated in the phase in which its subject is produced; the         *)
(*    variables written in a phase never change afterwards)                                            *)
TypeOK == /\ phase \in {"fresh", "authored", "written", "read", "expanded", "reexpanded"} /\ prior \in Priors
          /\ n \in Stages /\ c \in 1..Len(Contexts) /\ r \in Refs

(* Reads do not write: no call changes the process-wide table, and therefore every answer is the pure function *)
(* of the call's own arguments, whatever the process did before (two-step histories: InspectOther, then this    *)
(* reference).  PureAnswers is what the deviation Leaky breaks (expected-to-fail run of the driver).             *)
ReadsDoNotWrite == process = ReservedSeqs
PureAnswers == /\ (phase \in {"read", "expanded", "reexpanded"} => parts = ParseFull(text, n, Folders(Ctx)))
               /\ (phase = "expanded" => abs = Expand(text, n, Ctx))

(* "Parsing a data reference and printing the parts gives back the same reference" (both directions) *)
RoundTrip == phase = "written" =>
               /\ Parsable(text)
               /\ ParseAbs(text) = r
               /\ PrintRef(ParseAbs(text)) = text
(* parsing in a context keeps producer, file and method; only the stage is interpreted *)
PartsKept == phase = "read" =>
               /\ parts.prod = r.prod /\ parts.file = r.file /\ parts.method = r.method
               /\ parts.stage \in {NoStage, IF r.stage = NoStage THEN n ELSE r.stage}

(* "the relative and absolute spellings of a reference name the same producer, file and method":      *)
(* for a reference to a component the relative spelling read in stage n and the absolute spelling      *)
(* read in ANY stage give the same parts, and both expand to the absolute spelling                    *)
AbsOf(rr, k) == [rr EXCEPT !.stage = IF rr.stage = NoStage THEN k ELSE rr.stage]
SpellingsAgree ==
  (phase = "read" /\ r.prod \in Names /\ Class(text, n, Ctx) # "direct") =>
     \A m \in Stages :
        /\ ParseFull(PrintRef(AbsOf(r, n)), m, Folders(Ctx)) = parts
        /\ Expand(PrintRef(AbsOf(r, n)), m, Ctx) = Expand(text, n, Ctx)
        /\ Expand(text, n, Ctx) = PrintRef(AbsOf(r, n))

(* "expanding a reference to its absolute form is idempotent" *)
ExpandIdempotent == phase = "reexpanded" => abs = prev
ExpandKeepsParts == phase \in {"expanded", "reexpanded"} =>
                      LET p == ParseAbs(abs) IN p.prod = r.prod /\ p.file = r.file /\ p.method = r.method

(* classification: the designed parsers agree with the statement wherever the statement speaks;       *)
(* the two classes of the statement exclude each other in a well-formed context                       *)
ClassifiedAsStated ==
  phase = "read" =>
     /\ (DirectByStatement(text, Ctx) => parts.stage = NoStage)
     /\ (ComponentByStatement(text, n, Ctx) => parts.stage = Producer(text, n)[1])
DirectStaysPut == phase = "expanded" =>
     /\ (DirectByStatement(text, Ctx) => abs = text)
     /\ (ComponentByStatement(text, n, Ctx) => abs = PrintRef(AbsOf(r, n)))
ClassExclusive == phase = "written" => ~(DirectByStatement(text, Ctx) /\ KnownIn(Ctx, Producer(text, n)[1], Producer(text, n)[2]))

(* ---------------------------------------------------------------------- *)
(* Named deviations (what the implementation does today), kept so that TLC can show on which inputs they     *)
(* break the properties: both invariants below are EXPECTED TO FAIL.                                          *)
(* D1: ParseProducerReference tests the text before the first "." with re.match: only a PREFIX of it has to   *)
(*     be stage<N> ("stage1x" counts as stage 1).                                                              *)
StagePrefixNum == StageNum @@ ("stage1x" :> 1)
ParsePRByPrefix(p, idx) ==
  IF p[1] = "/" \/ ~Has(p, ".")
    THEN [stage |-> idx, name |-> p, has |-> FALSE]
  ELSE LET j == FirstPos(p, ".")
           head == Before(p, j)
       IN IF head[1] \in DOMAIN StagePrefixNum       \* the match is anchored at the start only
            THEN [stage |-> StagePrefixNum[head[1]], name |-> After(p, j), has |-> TRUE]
            ELSE [stage |-> idx, name |-> p, has |-> FALSE]
PrefixRuleRoundTrips ==
  phase = "written" => LET d == ParseDR(text)
                           q == ParsePRByPrefix(d.pref, NoStage)
                       IN PrintRef([stage |-> q.stage, prod |-> q.name, file |-> d.file, method |-> d.method]) = text
(* D2: Manifest.top_level_folders splits the key on os.path.pathsep (":"), which no key contains: a nested    *)
(*     key is reported whole.                                                                                  *)
TopLevelByPathsep(keys) == keys
PathsepRuleClassifies ==
  phase = "written" =>
     (DirectByStatement(text, Ctx) =>
        ParseFull(text, n, ReservedSeqs \cup TopLevelByPathsep(Ctx.keys) \cup DepNames(Ctx.deps)).stage = NoStage)

(* ---------------------------------------------------------------------- *)
(* emission for the conformance driver: everything the implementation has to reproduce for the case   *)
CtxJson(i) == LET x == Contexts[i] IN
   [t |-> "ctx", id |-> i, known |-> KnownSet(x), keys |-> x.keys, deps |-> x.deps,
    platform |-> x.platform, docdefault |-> x.doc.default, dochas |-> x.doc.has, docother |-> x.doc.other,
    toplevel |-> TopLevel(x.keys), depnames |-> {<<d, DepName(d)>> : d \in x.deps},
    folders |-> Folders(x)]
CaseJson ==
   LET s == PrintRef(r)
       d == ParseDR(s)
       q == ParsePR(d.pref, n)
       q0 == ParsePR(d.pref, NoStage)
       f == ParseFull(s, n, Folders(Ctx))
       e == Expand(s, n, Ctx)
   IN [t |-> "case", s |-> s, n |-> n, c |-> c, r |-> r, prior |-> prior,
       pref |-> d.pref, file |-> d.file, method |-> d.method,
       pstage |-> q.stage, pname |-> q.name, phas |-> q.has, pstage0 |-> q0.stage,
       fstage |-> f.stage, cls |-> Class(s, n, Ctx), expand |-> e,
       absolute |-> IF r.prod \in Names THEN PrintRef(AbsOf(r, n)) ELSE s,
       relative |-> PrintRef([r EXCEPT !.stage = NoStage]),
       kind |-> IF r.prod \in Names THEN "name" ELSE IF r.prod \in ReservedBodies THEN "reserved"
                ELSE IF r.prod \in AbsBodies THEN "abspath" ELSE "variable"]
EmitCase == (Emit /\ phase \in {"authored", "fresh"} /\ text = None) => PrintT(ToJson(CaseJson))
ASSUME Emit => \A i \in 1..Len(Contexts) : PrintT(ToJson(CtxJson(i)))

(* ---------------------------------------------------------------------- *)
(* alphabets selected by the generated cfg files (CONSTANT Names <- NamesFull ...)                    *)
NamesFull == {
   <<"foo">>, <<"a">>, <<"ba">>, <<"a0">>, <<"a-b">>,          \* suffix / digit-suffix / dash relations
   <<"x", ".", "y">>, <<"a", ".", "d">>,                        \* dotted names
   <<"0#x">>,                                                   \* loop iteration prefix
   <<"stage1x", ".", "foo">>, <<"stage1x">>, <<"stage1">>,      \* look-alikes of a stage prefix
   <<"xstage1", ".", "foo">>, <<"stage", ".", "foo">>, <<"x", ".", "stage1", ".", "y">>,
   <<"data", ".", "x">>, <<"datax">>, <<"name0">>,              \* look-alikes of folders
   <<"c">>, <<"name">>, <<"pkg">>, <<"n", ".", "m">>, <<"lib">> }   \* called like folders of some contexts
FilesFull == { <<>>, <<"f", ".", "txt">>, <<"*", ".", "txt">>, <<"d", "/", "f", ".", "txt">>, <<"d", "/", "*">>,
               <<"data", "/", "x">>, <<"stage1", ".", "x">>,
               <<"d", "/", "out-", "%(v)s", ".", "txt">>,                               \* a variable in the file path
               EmptyFile, <<"d", "/">> }                           \* "producer/:method" and a directory with a trailing "/"
FilesSmall == { <<>>, <<"d", "/", "f", ".", "txt">>, <<"d", "/", "*">>, <<"stage1", ".", "x">>,
                <<"d", "/", "out-", "%(v)s", ".", "txt">>, EmptyFile }
MethodsAll == {"copy", "link", "ref", "copyout", "extract", "output", "loopref", "loopoutput"}
MethodsSmall == {"ref", "copy"}
MethodsTwo == {"ref", "copyout"}
MethodsOne == {"ref"}
FilesTwo == { <<>>, <<"d", "/", "f", ".", "txt">> }
FilesThree == { <<>>, <<"d", "/", "out-", "%(v)s", ".", "txt">>, EmptyFile }

(* manifest keys of depth 1, 2 and 3; a deeper key whose top-level folder is / is not declared by a shallower key;  *)
(* keys with a trailing separator; keys whose top-level folder looks like a reserved folder or like a component     *)
(* name of the alphabet (datax, a0, name0 -- in those contexts no component has that name)                           *)
KeySets == << {},
              {<<"a">>},
              {<<"a", "/", "d">>},
              {<<"a", "/", "d">>, <<"c">>, <<"data", "/", "x">>},
              {<<"a", "/", "d", "/", "e">>},
              {<<"c">>, <<"c", "/", "d", "/", "e">>, <<"a", "/", "d", "/", "e">>, <<"a", "/", "x">>},
              {<<"a", "/">>, <<"c", "/", "d", "/">>},
              {<<"datax", "/", "y", "/", "z">>, <<"a0", "/", "x">>, <<"name0", "/", "x", "/", "y">>} >>
(* application dependencies: "name", "name.ext", "/abs/name.ext", deeper absolute paths, a trailing separator *)
DepSets == << {}, {<<"name", ".", "ext">>},
              {<<"/", "abs", "/", "name", ".", "ext">>, <<"pkg">>, <<"n", ".", "m", ".", "ext">>,
               <<"/", "abs", "/", "deep", "/", "er", "/", "lib", ".", "ext", "/">>} >>
MkCtxP(kn, keys, doc, platform) ==
   LET deps == EffectiveDeps(doc, platform) IN
   [mode |-> kn, keys |-> keys, deps |-> deps, folders |-> FoldersOf(keys, deps), doc |-> doc, platform |-> platform]
Doc(dflt, has, other) == [default |-> dflt, has |-> has, other |-> other]
MkCtx(kn, keys, deps) == MkCtxP(kn, keys, Doc(deps, FALSE, {}), "default")
ContextsFull == [i \in 1..72 |-> MkCtx(<<"all", "none", "stage0">>[((i - 1) % 3) + 1],
                                       KeySets[(((i - 1) \div 3) % 8) + 1], DepSets[((i - 1) \div 24) + 1])]
(* contexts 1, 2, 6, 7 give their application dependencies through the platform layering: 1 = the loaded platform    *)
(* overrides the default's {name.ext} with an explicitly EMPTY list (none hold: `name` is a component), 2 = the loaded  *)
(* platform has no entry (inherits {name.ext}), 6 = a non-empty override of a different default, 7 = the default       *)
(* platform is loaded and another platform's entry must not leak in                                                     *)
ContextsQuick == << MkCtxP("all", KeySets[1], Doc(DepSets[2], TRUE, {}), "other"),
                    MkCtxP("stage0", KeySets[2], Doc(DepSets[2], FALSE, {}), "other"),
                    MkCtx("all", KeySets[3], DepSets[3]), MkCtx("none", KeySets[4], DepSets[3]),
                    MkCtx("all", KeySets[5], DepSets[1]),
                    MkCtxP("not0", KeySets[6], Doc(DepSets[3], TRUE, DepSets[2]), "other"),
                    MkCtxP("stage0", KeySets[7], Doc({}, TRUE, DepSets[2]), "default"),
                    MkCtx("all", KeySets[8], DepSets[3]) >>
ASSUME \E i \in 1..Len(ContextsQuick) : EffectiveDepsFalsy(ContextsQuick[i].doc, ContextsQuick[i].platform) # ContextsQuick[i].deps
ContextsOne == << MkCtx("stage0", KeySets[4], DepSets[3]) >>
=============================================================================
