--------------------------- MODULE InstanceStore ---------------------------
(***************************************************************************)
(* C07 -- An instance reloaded from its own files is the same experiment.  *)
(*                                                                         *)
(* Two copies of the description of an experiment exist: the one in memory *)
(* (`mem`: the Experiment / WorkflowGraph / FlowIRExperimentConfiguration  *)
(* objects) and the one in the instance directory (`disk`:                 *)
(* conf/flowir_instance.yaml, conf/manifest.yaml, input/variables.yaml,    *)
(* conf/dowhile.yaml).  The actions are the API calls that move            *)
(* information between them or change the one in memory:                   *)
(*                                                                         *)
(*   Create         Experiment.experimentFromPackage(pkg, platform,        *)
(*                  variable_files): builds mem and writes disk            *)
(*   Iterate(store) WorkflowGraph.instantiate_dowhile_next_iteration(doc,  *)
(*                  currentIteration + 1, store): one more loop iteration  *)
(*                  in mem, optionally re-stored                           *)
(*   Patch          a dynamic change of a component option in mem (both    *)
(*                  the replicated and the unreplicated FlowIR, as the     *)
(*                  runtime does for the interface section)                *)
(*   Store          FlowIRExperimentConfiguration.                         *)
(*                  store_unreplicated_flowir_to_disk()                    *)
(*   Load(update)   Experiment.experimentFromInstance(dir, platform,       *)
(*                  updateInstanceConfiguration=update): mem is replaced   *)
(*                  by what disk describes; with update the loaded         *)
(*                  description is written back                            *)
(*                                                                         *)
(* The package family (record `pk`): platform, user variable file,         *)
(* replication, DoWhile document, and which blueprint layers (default /     *)
(* platform x global / stage) define the same option; every package also   *)
(* has a stage variable that only a component can resolve (it references   *)
(* replica / loopIteration) together with a variable the component         *)
(* overrides.                                                              *)
(*                                                                         *)
(* A description is abstract: which platform, which user variables, how    *)
(* many loop iterations, which patch generation.  `View` turns it into the *)
(* observable facts the conformance driver reads off the real objects      *)
(* (resolved variable values per layer, replica count, platform blueprint  *)
(* and override, iterations): the spec is the oracle for what must survive *)
(* a reload, the driver additionally compares the complete projection of   *)
(* the real experiment before Store and after Load.                        *)
(*                                                                         *)
(* `hist` records the actions taken so far; it is excluded from the VIEW,  *)
(* so TLC explores every abstract state once and the ACTION_CONSTRAINT     *)
(* EmitStep prints every transition together with a shortest history that  *)
(* reaches it: one real execution per transition.                          *)
(***************************************************************************)
EXTENDS Integers, Sequences, FiniteSets, TLC, Json

CONSTANTS Platforms,   \* subset of {"default", "plat"}: the platform the instance is created for
          UserVars,    \* subset of {"none", "global", "stage"}: user variable file given at creation
          Repls,       \* subset of BOOLEAN: does a component replicate (factor = variable n, which "global" user variables override)
          LoopsC,      \* subset of BOOLEAN: does the package import a DoWhile document
          Formats,     \* subset of {"flowir", "dosini"}: the package format (dosini: the legacy conf/experiment.conf + stages.d format,
                       \* stored to and reloaded from conf/experiment.instance.conf + conf/stages.d/stageN.instance.conf)
          Stales,      \* subset of BOOLEAN: does conf/ of the package already carry a flowir_instance.yaml (of an old, different instance)
          ReparamTo,   \* subset of {"default", "plat"}: platforms an existing instance may be re-parametrised for (action Reparam)
          PeekOn,      \* BOOLEAN: is the platform-less read (action Peek) explored
          Empties,     \* subset of {"absent", "empty"}: does a component set options explicitly to empty / zero / false (see Explicit)
          Blueprints,  \* subset of {"g", "gs", "sP", "all"}: which blueprint layers define the same option (see Defines)
          MaxIter,     \* loop iterations beyond iteration 0 (kept below 10: see C05)
          MaxPatch,    \* patch generations
          MaxLen,      \* length of the histories
          Emit

VARIABLES pk,    \* the package and creation options (constant along a behaviour)
          mem,   \* description held by the live objects
          disk,  \* description held by the instance directory
          hist   \* actions so far (not part of the VIEW)
vars == <<pk, mem, disk, hist>>
view == <<pk, mem, disk>>

PackageSpace == [plat : Platforms, uv : UserVars, repl : Repls, loop : LoopsC, bp : Blueprints, ex : Empties,
                 fmt : Formats, stale : Stales]
(* the legacy format is explored for the default platform, without loops (it has none), blueprint layers and stale files *)
ValidPackage(p) == p.fmt = "dosini" => (p.plat = "default" /\ ~p.loop /\ p.bp = "g" /\ ~p.stale)
Packages == {p \in PackageSpace : ValidPackage(p)}
AllPlatforms == {"default", "plat"}
(* `loaded`: were the live objects rebuilt from the directory (Load) or made from the package (Create).  It is     *)
(* part of the state (so that TLC also takes every step from a reloaded experiment) but no observable fact may     *)
(* depend on it; the directory never records it.                                                                   *)
None == [live |-> FALSE, plat |-> "default", uv |-> "none", iters |-> 0, patch |-> 0, loaded |-> FALSE]
Norm(d) == [d EXCEPT !.loaded = FALSE]

---------------------------------------------------------------------------
(* What a description means: the observable, resolved facts (layering as documented: default < platform < user;  *)
(* stage variables over global ones; component variables over both).                                             *)
OvVal(d)   == IF d.plat = "plat" THEN "O-ov" ELSE "c-ov"                \* component variable that override.plat.variables redefines
OnlyO(d)   == IF d.plat = "plat" THEN "only" ELSE ""                    \* variable that only override.plat.variables defines ("": not defined)
UvVal(d)   == IF d.uv = "none" THEN "d-uv" ELSE "U-uv"                  \* global variable, user files override it
PvVal(d)   == IF d.plat = "plat" THEN "P-pv" ELSE "d-pv"                \* global variable, the platform overrides it
SvVal(d)   == IF d.uv = "stage" THEN "U-sv"                             \* stage 0 variable: user stage > platform stage > default stage
              ELSE IF d.plat = "plat" THEN "P-sv" ELSE "d-sv"
Replicas(p, d) == IF ~p.repl THEN 0 ELSE IF d.uv = "global" THEN 3 ELSE 2   \* "global" user variables also set n: 3
Walltime(d) == IF d.plat = "plat" THEN 62 ELSE 61                       \* blueprint of the platform
Override(d) == d.plat = "plat"                                          \* component override of the platform applies
PpVal(d)   == d.patch                                                   \* component variable changed by Patch (0: as packaged)

(* One option (resourceRequest.numberThreads) is defined by several blueprint layers.  Documented precedence          *)
(* (FlowIRConcrete.get_component_configuration): default global < default stage < platform global < platform stage.  *)
(* The stage layers are those of stage 1 (the looped / replicated component); stage 2 only sees the global layers.   *)
LayerOrder == <<"dg", "ds", "pg", "ps">>
Value == [dg |-> 1, ds |-> 2, pg |-> 4, ps |-> 8]
Defines(b) == CASE b = "g" -> {"dg"} [] b = "gs" -> {"dg", "ds"} [] b = "sP" -> {"ds", "pg"} [] OTHER -> {"dg", "ds", "pg", "ps"}
Applies(d, stageLayers) == (IF d.plat = "plat" THEN {"dg", "ds", "pg", "ps"} ELSE {"dg", "ds"})
                           \cap (IF stageLayers THEN {"dg", "ds", "pg", "ps"} ELSE {"dg", "pg"})
Winner(p, d, stageLayers, val, builtin) ==
    LET act == Defines(p.bp) \cap Applies(d, stageLayers)
        idx == {i \in 1 .. 4 : LayerOrder[i] \in act}
    IN  IF idx = {} THEN builtin
        ELSE val[LayerOrder[CHOOSE i \in idx : \A j \in idx : j <= i]]
Threads(p, d)  == Winner(p, d, TRUE, Value, 1)   \* every instance of the stage-1 component, whenever it was instantiated
Threads2(p, d) == Winner(p, d, FALSE, Value, 1)
(* The same layers also define a VARIABLE (`chunk`) with the same precedence: a stage value shadows the global one of  *)
(* its platform, the platform's values shadow the default platform's.  The stage-1 component uses it.                  *)
ChunkValue == [dg |-> 10, ds |-> 200, pg |-> 40, ps |-> 500]
Chunk(p, d) == Winner(p, d, TRUE, ChunkValue, 0)

(* A stage-1 variable `lz` whose value references what only a component knows (replica, loopIteration) and the       *)
(* variable `mode`, which the component overrides: it is resolved by the component, with the component's `mode`,     *)
(* before and after any reload.  The platform's stage layer overrides its text (prefix "pz" instead of "z").         *)
LzPrefix(p, d) == IF ~(p.repl \/ p.loop) THEN "" ELSE IF d.plat = "plat" THEN "pz" ELSE "z"

(* "Explicitly empty is not absent".  The component `opt` either leaves a group of options alone ("absent": it gets   *)
(* the blueprint / built-in / global values, which are all non-empty, non-zero, true) or sets every one of them       *)
(* explicitly to the empty list, the empty string, 0 or false ("empty").  A stored description that drops such        *)
(* values (they look like "nothing" to a serializer) brings the defaults back on reload.                               *)
(*   hook: workflowAttributes.restartHookOn (built-in [ResourceExhausted]);  shut: workflowAttributes.shutdownOn       *)
(*   (global blueprint [KnownIssue]);  retries: repeatRetries (built-in 3);  memo: memoization.disable.strong          *)
(*   (global blueprint true);  es / zero / flag: component variables over the global "text" / 5 / true.                *)
Unset == -1
Explicit(p) == IF p.ex = "empty"
               THEN [hook |-> <<>>, shut |-> <<>>, retries |-> 0, maxr |-> 0, memo |-> FALSE, es |-> "", zero |-> 0, flag |-> FALSE]
               ELSE [hook |-> <<"ResourceExhausted">>, shut |-> <<"KnownIssue">>, retries |-> 3, maxr |-> Unset, memo |-> TRUE,
                     es |-> "text", zero |-> 5, flag |-> TRUE]
(* the same for a legacy package (what its format can express): max-restarts=0, repeatRetries=0, resolvePath=false, an    *)
(* empty variable, a variable "0"; maxRestarts that is not set is None (Unset), which is not 0 ("never restart")           *)
DExplicit(p) == IF p.ex = "empty"
                THEN [retries |-> 0, maxr |-> 0, rpath |-> FALSE, es |-> "", zero |-> "0"]
                ELSE [retries |-> 3, maxr |-> Unset, rpath |-> TRUE, es |-> "text", zero |-> "5"]

View(p, d) == [live |-> d.live, plat |-> d.plat, ov |-> OvVal(d), onlyo |-> OnlyO(d), uv |-> UvVal(d), pv |-> PvVal(d), sv |-> SvVal(d),
               nrep |-> Replicas(p, d), wall |-> Walltime(d), ovr |-> Override(d), pp |-> PpVal(d), iters |-> d.iters,
               threads |-> Threads(p, d), threads2 |-> Threads2(p, d), chunk |-> Chunk(p, d), lzp |-> LzPrefix(p, d),
               opt |-> Explicit(p), dopt |-> DExplicit(p)]

---------------------------------------------------------------------------
Init == /\ pk \in Packages
        /\ mem = None /\ disk = None /\ hist = <<>>

Create == /\ ~mem.live /\ ~disk.live
          /\ mem' = [live |-> TRUE, plat |-> pk.plat, uv |-> pk.uv, iters |-> 0, patch |-> 0, loaded |-> FALSE]
          /\ disk' = mem'
          /\ hist' = Append(hist, [a |-> "Create", flag |-> TRUE])
          /\ UNCHANGED pk

Iterate(store) == /\ mem.live /\ pk.loop /\ mem.iters < MaxIter
                  /\ mem' = [mem EXCEPT !.iters = @ + 1]
                  /\ disk' = IF store THEN Norm(mem') ELSE disk
                  /\ hist' = Append(hist, [a |-> "Iterate", flag |-> store])
                  /\ UNCHANGED pk

Patch == /\ mem.live /\ mem.patch < MaxPatch /\ pk.fmt = "flowir"
         /\ mem' = [mem EXCEPT !.patch = @ + 1]
         /\ hist' = Append(hist, [a |-> "Patch", flag |-> FALSE])
         /\ UNCHANGED <<pk, disk>>

Store == /\ mem.live /\ pk.fmt = "flowir"
         /\ disk' = Norm(mem)
         /\ hist' = Append(hist, [a |-> "Store", flag |-> FALSE])
         /\ UNCHANGED <<pk, mem>>

(* the live objects are dropped and rebuilt from the directory; `update` writes the loaded description back *)
Load(update) == /\ disk.live
                /\ mem' = [disk EXCEPT !.loaded = TRUE]
                /\ disk' = IF update THEN Norm(mem') ELSE disk
                /\ hist' = Append(hist, [a |-> "Load", flag |-> update])
                /\ UNCHANGED pk

(* The instance directory is read WITHOUT naming the platform again (Experiment.experimentFromInstance(dir), read-only: *)
(* what etest / ememo / ewrap do).  The description is self-contained under its single `default` platform, so the      *)
(* reader must see every fact of View(disk) -- everything but the platform's name -- although it does not re-apply      *)
(* the platform's layers (override.<platform>, platform variables, platform blueprints): they must have been folded in. *)
(* It is a read: neither the live objects nor the directory change.                                                     *)
(* With `update` (the default of experimentFromInstance: updateInstanceConfiguration=True) the reader also writes what it  *)
(* read back.  That must leave the stored description as it is: the next reload that names the platform the instance was   *)
(* created for (elaunch --restart) still yields it.  The driver performs that reload as part of the step.                  *)
Peek(update) == /\ disk.live /\ PeekOn
                /\ hist' = Append(hist, [a |-> "Peek", flag |-> update])
                /\ UNCHANGED <<pk, mem, disk>>

(* The instance directory is loaded again as a *package* for another platform with updateInstanceConfiguration=True *)
(* (what `elaunch --restart` does when the platform changed): Experiment(dir, platform=q, is_instance=False,          *)
(* updateInstanceConfiguration=True).  The experiment is rebuilt from the package description kept in the directory   *)
(* and the user variables in input/ (loop iterations and patches are gone) and it stores its OWN description over     *)
(* the existing one: a second store on an existing instance.                                                          *)
Reparam(q) == /\ disk.live /\ pk.fmt = "flowir" /\ q # mem.plat /\ q \in ReparamTo
              /\ mem' = [live |-> TRUE, plat |-> q, uv |-> disk.uv, iters |-> 0, patch |-> 0, loaded |-> TRUE]
              /\ disk' = Norm(mem')
              /\ hist' = Append(hist, [a |-> "Reparam", flag |-> (q = "plat")])
              /\ UNCHANGED pk

Next == \/ Create \/ Patch \/ Store
        \/ \E q \in AllPlatforms : Reparam(q)
        \/ \E s \in BOOLEAN : Iterate(s)
        \/ \E u \in BOOLEAN : Load(u)
        \/ \E u \in BOOLEAN : Peek(u)
Spec == Init /\ [][Next]_vars

Bounded == Len(hist) < MaxLen          \* CONSTRAINT: histories of at most MaxLen actions

---------------------------------------------------------------------------
(* The property C07 *)

(* "loading that directory again yields the same ... as the experiment that wrote it":                    *)
(*  a Load taken when the directory is up to date leaves the description in memory unchanged              *)
StoreLoadIdentity == [][(disk = Norm(mem) /\ \E u \in BOOLEAN : Load(u)) => Norm(mem') = Norm(mem)]_vars
(* and in general a Load yields exactly what was stored last *)
LoadYieldsStored == [][(\E u \in BOOLEAN : Load(u)) => Norm(mem') = disk]_vars
(* "Loading and storing again does not change the stored description" *)
LoadStoreIdempotent == [][(\E u \in BOOLEAN : Load(u)) => disk' = disk]_vars
(* "including user-supplied variables, the selected platform ..." *)
(* the user variables always; the platform until another one is selected (Reparam), which memory and directory then share *)
CreationOptionsSurvive == /\ mem.live => mem.uv = pk.uv
                          /\ disk.live => (disk.uv = pk.uv /\ disk.plat = mem.plat)
PlatformOnlyChangesByReparam == [][(mem.live /\ ~\E q \in AllPlatforms : Reparam(q)) => mem'.plat = mem.plat]_vars
(* every action that the API says stores (Create, Store, Iterate(store), Load(update), Reparam) leaves the directory with *)
(* the description of the experiment that performed it -- also when a description is already there (pk.stale, Reparam)   *)
LastStoreWins == [][(Create \/ Store \/ Iterate(TRUE) \/ Load(TRUE) \/ \E q \in AllPlatforms : Reparam(q)) => disk' = Norm(mem')]_vars
TypeOK == /\ pk \in Packages
          /\ mem.iters \in 0 .. MaxIter /\ disk.iters \in 0 .. MaxIter
          /\ mem.patch \in 0 .. MaxPatch /\ disk.patch \in 0 .. MaxPatch
          /\ (~pk.loop) => (mem.iters = 0 /\ disk.iters = 0)
          /\ ~disk.loaded
(* what is stored is never ahead of the live objects: it was written by them (Store, Iterate(store)) or they were  *)
(* rebuilt from it (Load); a Store captures everything instantiated / patched so far                               *)
DiskNeverAhead == disk.live => (mem.live /\ disk.iters <= mem.iters /\ disk.patch <= mem.patch)
PeekIsARead == [][(\E u \in BOOLEAN : Peek(u)) => UNCHANGED <<mem, disk>>]_vars
StoreCapturesAll == [][Store => disk' = Norm(mem)]_vars
(* "the same experiment" also for what happens next: no observable fact depends on whether the live objects were   *)
(* reloaded, and a further loop iteration of a reloaded experiment is the iteration the original would have made    *)
(* (Iterate commutes with Store;Load): the new instances get the configuration View prescribes for every instance.  *)
ViewIndependentOfOrigin == View(pk, mem) = View(pk, Norm(mem))
IterateCommutesWithReload ==
    [][(\E s \in BOOLEAN : Iterate(s)) => View(pk, mem') = [View(pk, Norm(mem)) EXCEPT !.iters = @ + 1]]_vars

---------------------------------------------------------------------------
(* Emission: every transition with a shortest history reaching it (ACTION_CONSTRAINT, evaluated on every step) *)
EmitStep == Emit => PrintT(ToJson([pk |-> pk, hist |-> hist', mem |-> View(pk, mem'), disk |-> View(pk, disk')]))
=============================================================================
