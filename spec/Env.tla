-------------------------------- MODULE Env --------------------------------
(***************************************************************************)
(* C17 -- Component environments are built only from their declared        *)
(* sources.                                                                *)
(*                                                                         *)
(* A package with the platforms default, p1 (and p2, never selected) may   *)
(* define a named environment ("myenv") and the package default            *)
(* environment ("environment") on the default platform and/or on p1.  A    *)
(* component selects an environment by name (in some spelling), selects    *)
(* the empty environment ("none"), or selects nothing.  The task then runs *)
(* in                                                                      *)
(*    system variables of the runtime                                      *)
(*  + nothing                                       (selection "none")     *)
(*  | package default environment, or the launch environment if the        *)
(*    package defines none                          (no selection)         *)
(*  | named environment of the selected platform layered over the one of   *)
(*    the default platform; error if neither defines it    (a name)        *)
(* The special key DEFAULTS = "A:B:.." imports launch variables by name    *)
(* (and lets the environment's own value of such a key refer to the launch *)
(* value).  References $X / ${X} in values are expanded first from the     *)
(* environment itself, then from the launch environment; an unknown name   *)
(* is left as it is.  Interpreter components additionally get the search   *)
(* path variables of the launch environment that they do not define.       *)
(* No other variable of the launch environment may appear (NoLeak).        *)
(*                                                                         *)
(* State = (selected platform, selection, spelling, interpreter?) chosen   *)
(* in Init + which environments exist with which keys, grown by the        *)
(* actions Create / AddKey: TLC enumerates every combination, every state  *)
(* is one package and is emitted with Expected to the conformance driver   *)
(* harness/checks/c17.py which builds the package, controls os.environ     *)
(* and calls the real WorkflowGraph.environmentForNode.                    *)
(*                                                                         *)
(* Key catalogue (chosen so that every relation between an own key, an     *)
(* imported name and the launch environment occurs):                       *)
(*   BASE  literal text; the launch environment also has a BASE            *)
(*   PATH  a:$BASE:b:$PATH  -- another own key + itself (the PATH idiom)   *)
(*   CH    a:$PATH:${LK}:b:$UNK:${UNK2} -- chain of depth 2 (CH -> PATH -> *)
(*         BASE), a launch-only name, unknown names, both notations        *)
(*   DEFAULTS  any list (length 0..3, every order) over BASE, PATH, IMP    *)
(*         (launch only) and NOPE (nowhere): imported names the            *)
(*         environment also defines / does not define, listed before /     *)
(*         after the key that refers to them.                              *)
(*   LD_LIBRARY_PATH  ''  an own key the environment deliberately clears;   *)
(*         also a launch variable (and a search path variable)             *)
(*   EMQ   ''  a cleared own key that is not a launch variable             *)
(*   LIBS  a:${LD_LIBRARY_PATH}:b:$EMQ:c  refers to the cleared keys       *)
(*   ZERO  the unquoted YAML scalar 0 (default platform) / 0.0 (p1); also a *)
(*         launch variable                                                 *)
(*   FLAG  the unquoted YAML scalar true (default platform) / false (p1)   *)
(*   USEZ  a:$ZERO:b:${FLAG}:c  refers to the two                          *)
(*         A scalar that YAML reads as a number or a boolean is the text   *)
(*         that prints it ('0', '0.0', 'False'): falsy is not empty.       *)
(* The launch environment gives every referenced name a different value.   *)
(* Empty values: a reference to an own key expands to the own value even   *)
(* when that value is empty (own first, then launch).  What the code at    *)
(* HEAD does with the OUTPUT is modelled as its legitimate behaviour: a    *)
(* key whose value is empty before the expansion is not part of the        *)
(* resulting environment (a value that only becomes empty by expansion is  *)
(* kept); an interpreter component gets a search path variable of the      *)
(* launch environment also when the environment had cleared it.            *)
(*                                                                         *)
(* Values are sequences of tokens: literal text tagged with its origin     *)
(* (key, environment, index), a reference to a variable (plain or in       *)
(* braces), or a name of the DEFAULTS list.                                *)
(***************************************************************************)
EXTENDS Integers, Sequences, FiniteSets, TLC, Json

CONSTANTS
    Plats,          \* selected platforms explored, subset of {"default", "p1"}
    Sels,           \* selections explored (see the classes below)
    Spells,         \* how the package spells environment names where it defines them: subset of {"lower", "mixed"}
    Interps,        \* subset of {"absent", "empty", "varempty", "bash"}: what the component says about an interpreter: nothing,
                    \*   '', a reference to a variable whose value is '', or a real interpreter.  Only the last one makes it
                    \*   an interpreter component
    Sels2,          \* selections of a second component c2 (a plain executable) of the same package, used by histories
    HistLen,        \* 0: packages only; n > 0: every package is followed by every sequence of n environment constructions
                    \*   (of c or c2) on ONE configuration object
    NamedD, NamedP, \* keys that may be defined in the named environment on default / p1
    PkgD, PkgP,     \* keys that may be defined in the package default environment on default / p1
    Creatable,      \* environments that may exist in this run (subset of EnvIds); they start absent
    Names,          \* the names under which the named environment is defined and selected.  A name is any text that is
                    \*   not (ignoring case) 'none', 'environment' or ''; the explored names include pieces, prefixes and
                    \*   extensions of those words (env, environ, ment, on, non, nonee, environment2 ...): a loose comparison
                    \*   would take them for the special names.  Expected does not depend on the name.
    Paths,          \* subset of {"primitive", "replicated"}: the driver builds the environment from the package as loaded
                    \*   (primitive) and from the replicated configuration that tasks actually run with; Expected is the
                    \*   same for both
    DLists,         \* the DEFAULTS lists explored: a set of sequences over {"BASE", "PATH", "IMP", "NOPE"}
    Family, Emit

VARIABLES nm,       \* the name of the named environment (chosen in Init)
          plat, sel, spell, interp, present, keys,
          sel2,     \* what the second component selects (chosen in Init)
          hist,     \* the environment constructions made so far on the configuration object, each with its answer
          dl        \* [EnvIds -> sequence of names]: the DEFAULTS list of an environment that has the key DEFAULTS
vars == <<nm, plat, sel, spell, interp, present, keys, sel2, hist, dl>>

EnvIds == {"named@default", "named@p1", "pkg@default", "pkg@p1"}
Keys   == {"BASE", "PATH", "CH", "LD_LIBRARY_PATH", "EMQ", "LIBS", "ZERO", "FLAG", "USEZ", "DEFAULTS"}
DefaultsNames == {"BASE", "PATH", "IMP", "NOPE", "LD_LIBRARY_PATH"}
Allowed(e) == CASE e = "named@default" -> NamedD [] e = "named@p1" -> NamedP
                [] e = "pkg@default" -> PkgD [] e = "pkg@p1" -> PkgP

NoneSels    == {"none", "NONE"}                                      \* 'none', 'None'
DefaultSels == {"unset", "empty", "environment", "ENVIRONMENT"}      \* no key, '', 'environment', 'Environment'
NamedSels   == {"name", "NAME", "NaMe"}                              \* 'myenv', 'MYENV', 'MyEnv'
AllSels     == NoneSels \cup DefaultSels \cup NamedSels \cup {"unknown"}

(* tokens *)
L(k, e, i) == [t |-> "lit", k |-> k, e |-> e, i |-> i]
R(to, br)  == [t |-> "ref", to |-> to, br |-> br]
N(n)       == [t |-> "name", n |-> n]
S(y, e)    == [t |-> "scalar", y |-> y, e |-> e]      \* an unquoted YAML scalar: "int0" 0, "float0" 0.0, "false", "true"
OnP1(e)    == e \in {"named@p1", "pkg@p1"}

(* the value environment e gives to key k *)
ValueOf(k, e) == CASE k = "BASE" -> <<L(k, e, 1)>>                                                             \* literal
                   [] k = "PATH" -> <<L(k, e, 1), R("BASE", FALSE), L(k, e, 2), R("PATH", FALSE)>>             \* a:$BASE:b:$PATH
                   [] k = "CH"   -> <<L(k, e, 1), R("PATH", FALSE), R("LK", TRUE), L(k, e, 2), R("UNK", FALSE), R("UNK2", TRUE)>>
                   [] k = "LD_LIBRARY_PATH" -> <<>>                                                            \* cleared; a launch variable
                   [] k = "EMQ"  -> <<>>                                                                       \* cleared; not at launch
                   [] k = "LIBS" -> <<L(k, e, 1), R("LD_LIBRARY_PATH", TRUE), L(k, e, 2), R("EMQ", FALSE), L(k, e, 3)>>
                   [] k = "ZERO" -> <<S(IF OnP1(e) THEN "float0" ELSE "int0", e)>>                            \* 0 / 0.0: falsy, not empty
                   [] k = "FLAG" -> <<S(IF OnP1(e) THEN "false" ELSE "true", e)>>                            \* a platform's false over the default's true
                   [] k = "USEZ" -> <<L(k, e, 1), R("ZERO", FALSE), L(k, e, 2), R("FLAG", TRUE), L(k, e, 3)>>
                   [] k = "DEFAULTS" -> [i \in 1..Len(dl[e]) |-> N(dl[e][i])]                                  \* names imported from launch

LaunchKeys == {"PATH", "BASE", "LK", "IMP", "DECOY", "HOME", "PYTHONPATH", "LD_LIBRARY_PATH", "ZERO"}     \* NOPE, UNK, UNK2, CH: not at launch
Launch == TLCEval([k \in LaunchKeys |-> <<L(k, "launch", 1)>>])
Sys    == TLCEval([k \in {"SYS"} |-> <<L(k, "system", 1)>>])
PathVars == {"PATH", "PYTHONPATH", "PYTHONHOME", "LD_LIBRARY_PATH"}      \* PYTHONHOME is not in the launch environment

Empty == [k \in {} |-> <<>>]
(* TLCEval: TLC evaluates function constructors lazily (the body again at every application); forcing them keeps *)
(* the evaluation of the pipeline below linear                                                                      *)
Merge(f, g) == TLCEval([k \in DOMAIN f \cup DOMAIN g |-> IF k \in DOMAIN g THEN g[k] ELSE f[k]])     \* g over f

RECURSIVE SubstFrom(_, _, _)
SubstFrom(val, m, i) == IF i > Len(val) THEN <<>>
                        ELSE (IF val[i].t = "ref" /\ val[i].to \in DOMAIN m THEN m[val[i].to] ELSE <<val[i]>>)
                             \o SubstFrom(val, m, i + 1)
(* one pass: every reference to a name known to m is replaced by m's value (which is not scanned again) *)
Subst(val, m) == SubstFrom(val, m, 1)

---------------------------------------------------------------------------
(* the definitions below take the set of existing environments (pr) and their keys (ks) as arguments so that a    *)
(* property can compare the result with the one for a package without the irrelevant environments                  *)
EnvFnOf(ks, e) == TLCEval([k \in ks[e] |-> ValueOf(k, e)])
EnvFn(e) == EnvFnOf(keys, e)
Id(n, p) == IF n = "named" THEN (IF p = "default" THEN "named@default" ELSE "named@p1")
                           ELSE (IF p = "default" THEN "pkg@default" ELSE "pkg@p1")
(* is environment n visible to the selected platform, and its contents: the platform's over the default platform's *)
DefinedOf(pr, n) == Id(n, "default") \in pr \/ (plat = "p1" /\ Id(n, "p1") \in pr)
LayeredOf(pr, ks, n) == Merge(IF Id(n, "default") \in pr THEN EnvFnOf(ks, Id(n, "default")) ELSE Empty,
                              IF plat = "p1" /\ Id(n, "p1") \in pr THEN EnvFnOf(ks, Id(n, "p1")) ELSE Empty)
Defined(n) == DefinedOf(present, n)
Layered(n) == LayeredOf(present, keys, n)
Sources(n) == {"launch", "system", Id(n, "default")} \cup (IF plat = "p1" THEN {Id(n, "p1")} ELSE {})

(* who = [sel, interp]: the component whose environment is built *)
IsInterpW(w) == w.interp = "bash"
Main   == [sel |-> sel, interp |-> interp]
Second == [sel |-> sel2, interp |-> "absent"]
IsInterp == IsInterpW(Main)
BaseOfW(w, pr, ks) ==
    CASE w.sel \in NoneSels    -> [ok |-> TRUE, env |-> Empty, launchcopy |-> FALSE, n |-> "-"]
      [] w.sel \in DefaultSels -> IF DefinedOf(pr, "pkg") THEN [ok |-> TRUE, env |-> LayeredOf(pr, ks, "pkg"), launchcopy |-> FALSE, n |-> "pkg"]
                                                        ELSE [ok |-> TRUE, env |-> Launch, launchcopy |-> TRUE, n |-> "-"]
      [] w.sel \in NamedSels   -> IF DefinedOf(pr, "named") THEN [ok |-> TRUE, env |-> LayeredOf(pr, ks, "named"), launchcopy |-> FALSE, n |-> "named"]
                                                          ELSE [ok |-> FALSE, env |-> Empty, launchcopy |-> FALSE, n |-> "named"]
      [] OTHER               -> [ok |-> FALSE, env |-> Empty, launchcopy |-> FALSE, n |-> "-"]
BaseOf(pr, ks) == BaseOfW(Main, pr, ks)
Base == BaseOf(present, keys)

(* names imported from the launch environment: listed in the (layered) DEFAULTS key and present at launch *)
Imported(e1) == IF "DEFAULTS" \in DOMAIN e1
                THEN {e1["DEFAULTS"][i].n : i \in 1..Len(e1["DEFAULTS"])} \cap DOMAIN Launch
                ELSE {}

BuildW(w, env0) ==
    LET e1  == Merge(Sys, env0)
        imp == Imported(e1)
        (* an imported name the environment does not define gets the launch value; one it defines may refer to the launch value *)
        e2  == TLCEval([k \in (DOMAIN e1 \cup imp) \ {"DEFAULTS"} |->
                   IF k \in imp THEN (IF k \in DOMAIN e1 THEN Subst(e1[k], [x \in {k} |-> Launch[k]]) ELSE Launch[k])
                                ELSE e1[k]])
        (* keys that are empty at this point do not appear in the result, but references to them still expand to nothing *)
        e3  == TLCEval([k \in {x \in DOMAIN e2 : Len(e2[x]) > 0} |-> Subst(e2[k], e2)])     \* first from the environment itself (all of it)
        e4  == TLCEval([k \in DOMAIN e3 |-> Subst(e3[k], Launch)])      \* then from the launch environment
        add == IF IsInterpW(w) THEN (PathVars \cap DOMAIN Launch) \ DOMAIN e4 ELSE {}
    IN  Merge(TLCEval([k \in add |-> Launch[k]]), e4)

Build(env0) == BuildW(Main, env0)
ExpectedOfW(w, pr, ks) == LET B == BaseOfW(w, pr, ks) IN IF B.ok THEN [ok |-> TRUE, env |-> BuildW(w, B.env)] ELSE [ok |-> FALSE, env |-> Empty]
ExpectedOf(pr, ks) == ExpectedOfW(Main, pr, ks)
ClassOfW(w) == IF w.sel \in NoneSels THEN "none" ELSE IF w.sel \in NamedSels THEN "named" ELSE IF w.sel = "unknown" THEN "unknown"
               ELSE IF BaseOfW(w, present, keys).launchcopy THEN "default-launch" ELSE "default-pkg"
Expected == ExpectedOf(present, keys)

---------------------------------------------------------------------------
Init == /\ nm \in Names /\ plat \in Plats /\ sel \in Sels /\ spell \in Spells /\ interp \in Interps
        /\ sel2 \in Sels2 /\ hist = <<>>
        /\ present = {}
        /\ keys = [e \in EnvIds |-> {}]
        /\ dl = [e \in EnvIds |-> <<>>]

Create(e) == /\ hist = <<>>
             /\ e \in Creatable /\ e \notin present
             /\ present' = present \cup {e}
             /\ UNCHANGED <<nm, plat, sel, spell, interp, keys, sel2, hist, dl>>

AddKey(e, k) == /\ hist = <<>>
                /\ e \in present /\ k \in Allowed(e) /\ k \notin keys[e] /\ k # "DEFAULTS"
                /\ keys' = [keys EXCEPT ![e] = @ \cup {k}]
                /\ UNCHANGED <<nm, plat, sel, spell, interp, present, sel2, hist, dl>>

(* the environment gets a DEFAULTS key with the list d (possibly empty) *)
AddDefaults(e, d) == /\ hist = <<>>
                     /\ e \in present /\ "DEFAULTS" \in Allowed(e) /\ "DEFAULTS" \notin keys[e]
                     /\ keys' = [keys EXCEPT ![e] = @ \cup {"DEFAULTS"}]
                     /\ dl' = [dl EXCEPT ![e] = d]
                     /\ UNCHANGED <<nm, plat, sel, spell, interp, present, sel2, hist>>

(* Histories: building an environment is a read -- it must not write.  Ask(c) builds the environment of component c   *)
(* ("c" or the second component "c2") on the one configuration object and records the answer, which is the pure     *)
(* function ExpectedOfW of the package and the launch environment whatever was built before; the package, and the   *)
(* system variables of the configuration, are unchanged.                                                            *)
Who(c) == IF c = "c" THEN Main ELSE Second
Ask(c) == /\ HistLen > 0 /\ Len(hist) < HistLen
          /\ hist' = Append(hist, [comp |-> c, class |-> ClassOfW(Who(c)), exp |-> ExpectedOfW(Who(c), present, keys)])
          /\ UNCHANGED <<nm, plat, sel, spell, interp, present, keys, sel2, dl>>

Next == \/ \E c \in {"c", "c2"} : Ask(c)
        \/ \E e \in {"named@default", "named@p1", "pkg@default", "pkg@p1"} : Create(e)
        \/ \E e \in {"named@default", "named@p1", "pkg@default", "pkg@p1"},
              k \in {"BASE", "PATH", "CH", "LD_LIBRARY_PATH", "EMQ", "LIBS", "ZERO", "FLAG", "USEZ"} : AddKey(e, k)
        \/ \E e \in {"named@default", "named@p1", "pkg@default", "pkg@p1"}, d \in DLists : AddDefaults(e, d)

Spec == Init /\ [][Next]_vars

---------------------------------------------------------------------------
(* Properties of C17 on the model.  They are written over (E, B) = (Expected, Base) so that TLC computes the      *)
(* expected environment once per state (AllProps / CheckAndEmit); the zero-argument forms are for reading and for  *)
(* naming the conjunct that fails.                                                                                 *)
TypeOK == /\ nm \in Names /\ Names \cap {"none", "environment", ""} = {} /\ Paths \subseteq {"primitive", "replicated"}
          /\ plat \in {"default", "p1"} /\ sel \in AllSels /\ spell \in {"lower", "mixed"}
          /\ interp \in {"absent", "empty", "varempty", "bash"} /\ sel2 \in AllSels /\ Len(hist) <= HistLen
          /\ present \subseteq EnvIds /\ \A e \in EnvIds : keys[e] \subseteq Keys /\ (e \notin present => keys[e] = {})
          /\ \A e \in EnvIds : /\ \A i \in 1..Len(dl[e]) : dl[e][i] \in DefaultsNames
                               /\ ("DEFAULTS" \notin keys[e] => dl[e] = <<>>)

DeclaredP(B) == IF B.n = "-" THEN {} ELSE DOMAIN Layered(B.n) \ {"DEFAULTS"}
LegitP(B)    == DOMAIN Sys \cup DeclaredP(B) \cup (IF B.ok THEN Imported(Merge(Sys, B.env)) ELSE {})
                           \cup (IF IsInterp THEN PathVars ELSE {})

(* an error exactly when a name is selected that neither the selected nor the default platform defines *)
ErrorIffP(E, B) == (~E.ok) <=> (sel = "unknown" \/ (sel \in NamedSels /\ ~Defined("named")))

(* apart from declared keys, imported names and the interpreter's search path nothing of the launch environment appears *)
NoLeakP(E, B) == (E.ok /\ ~B.launchcopy) => /\ DOMAIN E.env \subseteq LegitP(B)
                                            /\ \A k \in DOMAIN Launch \ LegitP(B) : k \notin DOMAIN E.env
NoneIsEmptyP(E, B)  == (sel \in NoneSels) => DOMAIN E.env \subseteq DOMAIN Sys \cup (IF IsInterp THEN PathVars ELSE {})
SystemAlwaysP(E, B) == E.ok => \A k \in DOMAIN Sys : k \in DOMAIN E.env

(* no text of an environment that is not a source for this platform / selection appears in a value *)
NoForeignTextP(E, B) == (E.ok /\ B.n # "-") =>
                           \A k \in DOMAIN E.env : LET v == E.env[k] IN
                               \A i \in 1..Len(v) : v[i].t = "lit" => v[i].e \in Sources(B.n)

(* platform over default: a key both define starts with the platform's text *)
PlatformOverDefaultP(E, B) == (E.ok /\ B.n # "-" /\ plat = "p1" /\ Id(B.n, "p1") \in present) =>
                                 \A k \in (keys[Id(B.n, "p1")] \cap {"BASE", "PATH", "CH"}) :
                                     E.env[k][1] = L(k, Id(B.n, "p1"), 1)

(* own before launch: $BASE inside PATH becomes the environment's BASE whenever the environment has one -- also   *)
(* when BASE and PATH are both imported by DEFAULTS, in either order; $PATH inside PATH is the launch PATH exactly *)
(* when PATH is imported, otherwise the environment's own (unexpanded) PATH                                        *)
OwnBeforeLaunchP(E, B) == (E.ok /\ B.n # "-" /\ "PATH" \in DeclaredP(B) /\ "BASE" \in DeclaredP(B)) =>
                             /\ E.env["PATH"][2].t = "lit" /\ E.env["PATH"][2].k = "BASE" /\ E.env["PATH"][2].e # "launch"
                             /\ ("PATH" \in Imported(Merge(Sys, B.env))) => E.env["PATH"][4] = L("PATH", "launch", 1)

(* a key the environment clears stays cleared: it is not in the result (unless it is a search path variable of an  *)
(* interpreter component) and a reference to it never becomes the launch value                                     *)
ClearedStaysClearedP(E, B) == (E.ok /\ B.n # "-") =>
                                 /\ \A k \in DeclaredP(B) \cap {"LD_LIBRARY_PATH", "EMQ"} : k \in DOMAIN E.env => (IsInterp /\ k \in PathVars)
                                 /\ ("LIBS" \in DeclaredP(B) /\ "LD_LIBRARY_PATH" \in DeclaredP(B)) =>
                                        \A i \in 1..Len(E.env["LIBS"]) : E.env["LIBS"][i].t = "lit" => E.env["LIBS"][i].e # "launch"
ClearedStaysCleared == ClearedStaysClearedP(Expected, Base)

(* falsy is not empty: a declared key whose value is the scalar 0 / 0.0 / false is part of the result, and a reference *)
(* to it expands to its text, never to the launch value and never to nothing                                          *)
FalsyIsAValueP(E, B) == (E.ok /\ B.n # "-") =>
                           /\ \A k \in DeclaredP(B) \cap {"ZERO", "FLAG"} : k \in DOMAIN E.env /\ E.env[k][1].t = "scalar"
                           /\ ("USEZ" \in DeclaredP(B) /\ "ZERO" \in DeclaredP(B)) => E.env["USEZ"][2].t = "scalar"
FalsyIsAValue == FalsyIsAValueP(Expected, Base)

(* environments that are not a source for this selection and platform (the other kind of environment, the other *)
(* platform's environments) never matter: the result equals the one for the package without them                  *)
RelevantIds == LET n == IF sel \in NamedSels THEN "named" ELSE IF sel \in DefaultSels THEN "pkg" ELSE "-"
               IN IF n = "-" THEN {} ELSE {Id(n, "default")} \cup (IF plat = "p1" THEN {Id(n, "p1")} ELSE {})
ForeignIrrelevantP(E, B) == E = ExpectedOf(present \cap RelevantIds, [e \in EnvIds |-> IF e \in RelevantIds THEN keys[e] ELSE {}])
ForeignIrrelevant == ForeignIrrelevantP(Expected, Base)

(* reads do not write: an environment construction leaves the package alone (action property) and every recorded    *)
(* answer is still the pure function of the package -- it does not depend on what was built before                    *)
ReadsDoNotWrite == [][hist' # hist => (present' = present /\ keys' = keys /\ dl' = dl)]_vars
AnswersArePure == \A n \in 1..Len(hist) : hist[n].exp = ExpectedOfW(Who(hist[n].comp), present, keys)

AllPropsP(E, B) == /\ ErrorIffP(E, B) /\ NoLeakP(E, B) /\ NoneIsEmptyP(E, B) /\ SystemAlwaysP(E, B)
                   /\ NoForeignTextP(E, B) /\ PlatformOverDefaultP(E, B) /\ OwnBeforeLaunchP(E, B)
                   /\ ForeignIrrelevantP(E, B) /\ ClearedStaysClearedP(E, B) /\ FalsyIsAValueP(E, B)

ErrorIff            == ErrorIffP(Expected, Base)
NoLeak              == NoLeakP(Expected, Base)
NoneIsEmpty         == NoneIsEmptyP(Expected, Base)
SystemAlways        == SystemAlwaysP(Expected, Base)
NoForeignText       == NoForeignTextP(Expected, Base)
PlatformOverDefault == PlatformOverDefaultP(Expected, Base)
OwnBeforeLaunch     == OwnBeforeLaunchP(Expected, Base)

---------------------------------------------------------------------------
CaseP(E, B) == [family |-> Family, name |-> nm, paths |-> Paths, plat |-> plat, sel |-> sel, spell |-> spell, interp |-> interp, isinterp |-> IsInterp,
                sel2 |-> sel2, hist |-> hist,
                envs |-> [e \in present |-> EnvFn(e)],
                launch |-> Launch, sys |-> Sys,
                class |-> (IF sel \in NoneSels THEN "none" ELSE IF sel \in NamedSels THEN "named" ELSE IF sel = "unknown" THEN "unknown"
                           ELSE IF B.launchcopy THEN "default-launch" ELSE "default-pkg"),
                legit |-> LegitP(B),
                expected |-> E]
(* all properties and the emission of the state for the conformance driver, with Expected computed once *)
CheckAndEmit == LET E == Expected
                    B == Base
                IN AllPropsP(E, B) /\ AnswersArePure /\ ((Emit /\ Len(hist) = HistLen) => PrintT(ToJson(CaseP(E, B))))
=============================================================================
