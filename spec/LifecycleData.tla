---- MODULE LifecycleData ----
\* sample (so that the module parses in place); every run of ./check G03 generates its own into spec/gen/g03_*
Scenarios == <<
  [ns |-> 2, w |-> <<2, 2>>, out |-> <<<<"ok", "fail">>, <<"ok">>>>, coe |-> <<FALSE, FALSE>>, restart |-> FALSE, start |-> 1, prior |-> <<"none", "none", "N/A", 0, 0, 0, FALSE, FALSE, FALSE>>, setup |-> "ok", chain |-> TRUE],
  [ns |-> 2, w |-> <<2, 2>>, out |-> <<<<"ok", "ok">>, <<"ok">>>>, coe |-> <<FALSE, FALSE>>, restart |-> TRUE, start |-> 2, prior |-> <<"finished", "failed", "Failed", 2, 2, 0, TRUE, TRUE, TRUE>>, setup |-> "ok", chain |-> TRUE]
>>
====
