------------------------------ MODULE Progress ------------------------------
(***************************************************************************)
(* C20 -- stage weights and total progress.                                *)
(*                                                                         *)
(* Units: a weight w is the integer 10000*w ("ten-thousandths"), so that   *)
(* the thousandth-truncation the loader performs (int(w*1000)) is visible  *)
(* in the model.  Stage progress is the fraction finished/size of the      *)
(* stage's components; sizes are 3 or 4, so it is counted in twelfths      *)
(* (Den).  Total progress is therefore in units of 1/(Den*Unit) = 1/120000.*)
(*                                                                         *)
(* The module has three parts:                                             *)
(*  - Normalise: what a loader has to do with the weights a package gives  *)
(*    (FlowIR.inject_default_values).  `given[i]` is a number, "missing"   *)
(*    or "malformed".                                                      *)
(*  - the progress state machine of the status monitor (CheckStatus):      *)
(*    stages become active in order, an earlier stage may stay "in         *)
(*    transit" while a later one is active, component completions advance  *)
(*    the active stages, finished stages count with their full weight.     *)
(*  - loops: a stage may host a DoWhile loop (iters[i] > 0).  Its          *)
(*    components are two plain ones plus one looped component per          *)
(*    iteration instantiated so far (Iterate adds one).  The loop's        *)
(*    PLACEHOLDER (the name consumers of the loop refer to) is not a       *)
(*    component: it never runs, it is not "done" on a normal run           *)
(*    (PlaceholderDone) and it has no say in whether the stage is in       *)
(*    transit or finished (InTransit / Finished).                          *)
(***************************************************************************)
EXTENDS Integers, Sequences, FiniteSets, TLC, Json

CONSTANTS MinStages, MaxStages,   \* number of stages explored: MinStages..MaxStages
          GridPos,        \* set of naturals: the numeric weights a package may give (ten-thousandths)
          GridNeg,        \* set of naturals whose negations are also given (a cfg file cannot hold -1)
          UseSpecial,     \* TRUE: a weight may also be missing or malformed
          Restarts,       \* TRUE: the experiment may be (re)started from any stage: the earlier stages count as finished
          LoopStages,     \* the stages that may host a DoWhile loop: exactly one of LoopStages \cap 1..n does (none when that is empty)
          MaxIter,        \* the loop unrolls up to MaxIter iterations
          Emit            \* TRUE: print every (given, weights) case as JSON for the conformance driver

Grid == GridPos \cup {-x : x \in GridNeg}

Unit == 10000
Den == 12              \* stage progress in twelfths: a plain stage has 4 components, a stage hosting a loop 2 + (1 or 2 iterations)
ASSUME MaxIter \in 0..2 /\ (LoopStages = {} \/ MaxIter >= 1)
Missing == 999991      \* TLC cannot mix strings and integers in one set: two integer codes
Malformed == 999992
Special == {Missing, Malformed}

VARIABLES n,        \* number of stages
          start,    \* the stage the controller starts from (1 = from the beginning; > 1 = `elaunch --restart`)
          given,    \* [1..n -> Grid \cup Special]
          w,        \* [1..n -> Int]  normalised weights (only meaningful when loaded)
          loaded,
          st,       \* [1..n -> {"pending","active","transit","finished"}]
          iters,    \* [1..n -> 0..MaxIter]  0: a plain stage; k > 0: the stage hosts a loop, k iterations are instantiated
          prog,     \* [1..n -> 0..Size(i)] how many of the stage's components have finished
          mon,      \* the status monitor's CheckStatus in progress: [pc, cur, T, F, s0, a]
          reported  \* the total progress CheckStatus last wrote to the status file, in 1/(Den*Unit); -1 before the first
vars == <<n, start, given, w, loaded, st, iters, prog, mon, reported>>

RECURSIVE SumTo(_, _)
SumTo(f, k) == IF k = 0 THEN 0 ELSE f[k] + SumTo(f, k - 1)
Sum(f, k) == SumTo(f, k)

Num(v) == IF v \in Special THEN 0 ELSE v

(* int(x*1000) of the implementation: truncation towards zero of the thousandths *)
Trunc(x) == IF x >= 0 THEN x \div 10 ELSE -((-x) \div 10)

(* A missing weight counts as 0 (the property allows it: the result is non-negative and sums to one).  *)
(* A malformed weight (not a number) makes the package invalid: the loader must reject it.             *)
Rejected(g, k) == \E i \in 1..k : g[i] = Malformed
Usable(g, k) == /\ \A i \in 1..k : g[i] # Malformed /\ Num(g[i]) >= 0
                /\ Sum([i \in 1..k |-> Num(g[i])], k) = Unit

(* The fallback of the loader: an equal split in thousandths, the remainder goes to the last stage *)
Fallback(k) == [i \in 1..k |-> IF i < k THEN (1000 \div k) * 10 ELSE (1000 - (k - 1) * (1000 \div k)) * 10]

(* Specified normalisation: the given weights when they are usable, the fallback otherwise *)
Normalise(g, k) == IF Usable(g, k) THEN [i \in 1..k |-> Num(g[i])] ELSE Fallback(k)

(* What the thousandth-truncating acceptance test of the loader computes; kept in the spec as a named   *)
(* deviation so that TLC can show on which inputs it differs from Normalise (see DeviationIsHarmless).   *)
TruncAccepts(g, k) == Sum([i \in 1..k |-> Trunc(Num(g[i]))], k) = 1000

(* the components of a stage: 4 plain ones, or - in the stage hosting the loop - 2 plain ones and one per iteration *)
Size(i) == IF iters[i] = 0 THEN 4 ELSE 2 + iters[i]
(* The placeholder of the loop hosted in stage i is marked done only when a restart skips the stage (Controller.initialise); *)
(* no action of a normal run (Advance / Iterate / NextStage / Finish) changes that.  Documentation: nothing below reads it.     *)
PlaceholderDone(i) == iters[i] > 0 /\ i < start

(* CheckStatus of the status monitor runs concurrently with the controller.  It reads the current stage (MonBegin),  *)
(* then - under the controller's lock, i.e. atomically - the stages in transit and the finished stages (MonSnap),     *)
(* then the progress of the current stage and of every stage in transit, and writes the weighted sum (MonSum).        *)
(* s0 / a are history: the state when CheckStatus began and the one controller action that happened meanwhile.         *)
MonIdle == [pc |-> "idle", cur |-> 0, T |-> {}, F |-> {}, s0 |-> <<>>, a |-> <<"none", 0>>]

Init == /\ n \in MinStages..MaxStages
        /\ start \in (IF Restarts THEN 1..n ELSE {1})
        /\ given \in [1..n -> IF UseSpecial THEN Grid \cup Special ELSE Grid]
        /\ w = [i \in 1..n |-> 0]
        /\ loaded = FALSE
        /\ st = [i \in 1..n |-> "pending"]
        /\ iters \in (IF LoopStages \cap 1..n = {} THEN {[i \in 1..n |-> 0]}       \* a loop starts with its first iteration
                      ELSE {[i \in 1..n |-> IF i = l THEN 1 ELSE 0] : l \in LoopStages \cap 1..n})
        /\ prog = [i \in 1..n |-> 0]
        /\ mon = MonIdle
        /\ reported = -1

Note(act) == IF mon.pc = "idle" THEN mon ELSE [mon EXCEPT !.a = act]
(* while a CheckStatus is in progress at most one controller action is explored (bound of the model, see MonBusyOnce) *)
MonQuiet == mon.pc = "idle" \/ mon.a = <<"none", 0>>

Load == /\ ~loaded /\ ~Rejected(given, n)
        /\ loaded' = TRUE
        /\ w' = Normalise(given, n)
        /\ st' = [i \in 1..n |-> IF i < start THEN "finished" ELSE IF i = start THEN "active" ELSE "pending"]   \* Controller.initialise
        /\ prog' = [i \in 1..n |-> IF i < start THEN Size(i) ELSE 0]          \* ... which marks every component of the skipped stages as finished
        /\ UNCHANGED <<n, start, given, iters, mon, reported>>

(* a component of an active / in-transit stage finishes (a looped one finishes like any other) *)
Advance(i) == /\ i <= n /\ loaded /\ MonQuiet /\ st[i] \in {"active", "transit"} /\ prog[i] < Size(i)
              /\ prog' = [prog EXCEPT ![i] = @ + 1]
              /\ mon' = Note(<<"Advance", i>>)
              /\ UNCHANGED <<n, start, given, w, loaded, st, iters, reported>>

(* the loop hosted in stage i unrolls once more: the component(s) of every iteration so far have finished and the condition  *)
(* held; the stage gets one more component, so its progress fraction drops.  Bound of the model: no iteration is instantiated *)
(* while a CheckStatus is in progress.                                                                                        *)
Iterate(i) == /\ i <= n /\ loaded /\ mon.pc = "idle" /\ st[i] \in {"active", "transit"}
              /\ iters[i] > 0 /\ iters[i] < MaxIter /\ prog[i] >= iters[i]
              /\ iters' = [iters EXCEPT ![i] = @ + 1]
              /\ UNCHANGED <<n, start, given, w, loaded, st, prog, mon, reported>>

(* the controller moves on to stage i+1; stage i either is finished (whatever was left of it has completed) or stays in transit *)
NextStage(i, how) == /\ i <= n /\ loaded /\ MonQuiet /\ st[i] = "active" /\ i < n /\ st[i + 1] = "pending"
                     /\ how \in {"finished", "transit"}
                     /\ st' = [st EXCEPT ![i] = how, ![i + 1] = "active"]
                     /\ prog' = IF how = "finished" THEN [prog EXCEPT ![i] = Size(i)] ELSE prog
                     /\ mon' = Note(<<"NextStage" \o how, i>>)
                     /\ UNCHANGED <<n, start, given, w, loaded, iters, reported>>

Finish(i) == /\ i <= n /\ loaded /\ MonQuiet
             /\ \/ st[i] = "transit"
                \/ st[i] = "active" /\ i = n
             /\ st' = [st EXCEPT ![i] = "finished"]
             /\ prog' = [prog EXCEPT ![i] = Size(i)]
             /\ mon' = Note(<<"Finish", i>>)
             /\ UNCHANGED <<n, start, given, w, loaded, iters, reported>>

Current == IF \E i \in 1..n : st[i] = "active" THEN CHOOSE i \in 1..n : st[i] = "active" ELSE n
(* Controller.get_stage_status: finished components / all components of the stage, in twelfths *)
Frac(i) == (Den \div Size(i)) * prog[i]

(* What the monitor has to be told, stated on the stages themselves and not on how the controller keeps its books:         *)
(*  - a stage is FINISHED iff every one of its components has finished and the controller is past it (or it is the last     *)
(*    stage and has completed): st[i] = "finished" (Finish / NextStage("finished") complete whatever is left of the stage);   *)
(*  - a stage is IN TRANSIT iff it has been started and is not finished.  (The model keeps the last Advance of a stage the    *)
(*    controller has left and the controller noticing it - Finish - apart: in between the stage is in transit with fraction  *)
(*    1, which contributes exactly what a finished stage does.)                                                                *)
(* A stage is never both, and the placeholder of a loop is not a component: a stage hosting a loop is finished as soon as    *)
(* its plain components and the components of all its iterations are, whether or not the placeholder was ever marked done.  *)
Finished  == {i \in 1..n : st[i] = "finished"}
InTransit == {i \in 1..n : st[i] \in {"active", "transit"}}

MonBegin == /\ loaded /\ mon.pc = "idle"
            /\ mon' = [pc |-> "begun", cur |-> Current, T |-> {}, F |-> {}, s0 |-> <<st, prog, iters>>, a |-> <<"none", 0>>]
            /\ UNCHANGED <<n, start, given, w, loaded, st, iters, prog, reported>>
MonSnap ==  /\ mon.pc = "begun"
            /\ mon' = [mon EXCEPT !.pc = "snapped", !.T = InTransit \ {mon.cur}, !.F = Finished \ {mon.cur}]
            /\ UNCHANGED <<n, start, given, w, loaded, st, iters, prog, reported>>
MonSum ==   /\ mon.pc = "snapped"
            /\ reported' = Sum([i \in 1..n |-> IF i = mon.cur \/ i \in mon.T THEN Frac(i) * w[i]
                                                ELSE IF i \in mon.F THEN Den * w[i] ELSE 0], n)
            /\ mon' = [mon EXCEPT !.pc = "idle"]
            /\ UNCHANGED <<n, start, given, w, loaded, st, iters, prog>>

Next == \/ Load
        \/ MonBegin \/ MonSnap \/ MonSum
        \/ \E i \in 1..MaxStages : Advance(i)          \* constant bounds: TLC then reports coverage per action
        \/ \E i \in 1..MaxStages : Iterate(i)
        \/ \E i \in 1..MaxStages : Finish(i)
        \/ \E i \in 1..MaxStages, h \in {"finished", "transit"} : NextStage(i, h)

(* the controller alone (no CheckStatus in progress): used to enumerate the states the progress formula is checked on *)
NextNoMon == \/ Load
             \/ \E i \in 1..MaxStages : Advance(i)
             \/ \E i \in 1..MaxStages : Iterate(i)
             \/ \E i \in 1..MaxStages : Finish(i)
             \/ \E i \in 1..MaxStages, h \in {"finished", "transit"} : NextStage(i, h)

SpecNoMon == Init /\ [][NextNoMon]_vars
Spec == Init /\ [][Next]_vars

(* total progress as CheckStatus computes it, in 1/(Den*Unit) *)
Contribution(i) == CASE i \in Finished -> Den * w[i]
                     [] i \in InTransit -> Frac(i) * w[i]
                     [] OTHER -> 0
Total == Sum([i \in 1..n |-> Contribution(i)], n)

---------------------------------------------------------------------------
(* Properties of C20 *)
WeightsNonNegative == loaded => \A i \in 1..n : w[i] >= 0
WeightsSumToOne    == loaded => Sum(w, n) = Unit
GivenPreserved     == (loaded /\ Usable(given, n)) => \A i \in 1..n : w[i] = Num(given[i])
TotalInRange       == loaded => (0 <= Total /\ Total <= Den * Unit)
ReportedInRange    == reported = -1 \/ (0 <= reported /\ reported <= Den * Unit)
TotalCompleteAtEnd == (loaded /\ \A i \in 1..n : st[i] = "finished") => Total = Den * Unit
NeverBoth          == Finished \cap InTransit = {}
FinishedIsComplete == loaded => \A i \in Finished : prog[i] = Size(i)
TypeOK == /\ n \in 1..MaxStages /\ loaded \in BOOLEAN
          /\ \A i \in 1..n : /\ st[i] \in {"pending", "active", "transit", "finished"}
                             /\ iters[i] \in 0..MaxIter /\ prog[i] \in 0..Size(i)

(* state constraint for the runs on loops: only packages whose given weights are used as they are *)
OnlyUsable == Usable(given, n)
(* state constraint: nothing is explored beyond the first completed CheckStatus (its record is still emitted: TLC evaluates *)
(* the invariants on a state before it discards it)                                                                        *)
FirstReport == reported = -1

(* progress never decreases while stages only advance (action property); a new iteration of a loop legitimately lowers   *)
(* the fraction of its stage                                                                                                *)
Monotone == [][(loaded /\ iters' = iters) => Total' >= Total]_vars
(* every CheckStatus reports a value between the true total when it began and the true total when it ended *)

(* emission of cases for the conformance driver *)
EmitCase == (Emit /\ ~loaded) =>
              PrintT(ToJson([n |-> n, given |-> [i \in 1..n |-> given[i]],
                             expected |-> Normalise(given, n),
                             truncAccepts |-> TruncAccepts(given, n), rejected |-> Rejected(given, n),
                             usable |-> Usable(given, n)]))
EmitUsable == (Emit /\ ~loaded /\ Usable(given, n)) =>
              PrintT(ToJson([n |-> n, given |-> [i \in 1..n |-> given[i]], expected |-> Normalise(given, n),
                             truncAccepts |-> TruncAccepts(given, n), rejected |-> FALSE, usable |-> TRUE]))
(* one record per completed CheckStatus: where it began, what the controller did meanwhile, what it reported *)
EmitReport == (Emit /\ loaded /\ mon.pc = "idle" /\ reported # -1 /\ mon.s0 # <<>>) =>
              PrintT(ToJson([n |-> n, start |-> start, given |-> [i \in 1..n |-> given[i]], w |-> w, st0 |-> mon.s0[1], prog0 |-> mon.s0[2],
                             iters0 |-> mon.s0[3], act |-> mon.a[1], arg |-> mon.a[2], reported |-> reported, den |-> Den]))
EmitState == (Emit /\ loaded /\ mon.pc = "idle") =>
              PrintT(ToJson([n |-> n, start |-> start, given |-> [i \in 1..n |-> given[i]], w |-> w,
                             st |-> st, prog |-> prog, iters |-> iters, total |-> Total, den |-> Den]))
=============================================================================
