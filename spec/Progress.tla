------------------------------ MODULE Progress ------------------------------
(***************************************************************************)
(* C20 -- stage weights and total progress.                                *)
(*                                                                         *)
(* Units: a weight w is the integer 10000*w ("ten-thousandths"), so that   *)
(* the thousandth-truncation the loader performs (int(w*1000)) is visible  *)
(* in the model.  Stage progress is counted in quarters (0..4 == 0..1.0).  *)
(* Total progress is therefore in units of 1/40000.                        *)
(*                                                                         *)
(* The module has two parts:                                               *)
(*  - Normalise: what a loader has to do with the weights a package gives  *)
(*    (FlowIR.inject_default_values).  `given[i]` is a number, "missing"   *)
(*    or "malformed".                                                      *)
(*  - the progress state machine of the status monitor (CheckStatus):      *)
(*    stages become active in order, an earlier stage may stay "in         *)
(*    transit" while a later one is active, component completions advance  *)
(*    the active stages, finished stages count with their full weight.     *)
(***************************************************************************)
EXTENDS Integers, Sequences, FiniteSets, TLC, Json

CONSTANTS MinStages, MaxStages,   \* number of stages explored: MinStages..MaxStages
          GridPos,        \* set of naturals: the numeric weights a package may give (ten-thousandths)
          GridNeg,        \* set of naturals whose negations are also given (a cfg file cannot hold -1)
          UseSpecial,     \* TRUE: a weight may also be missing or malformed
          Restarts,       \* TRUE: the experiment may be (re)started from any stage: the earlier stages count as finished
          Emit            \* TRUE: print every (given, weights) case as JSON for the conformance driver

Grid == GridPos \cup {-x : x \in GridNeg}

Unit == 10000
Missing == 999991      \* TLC cannot mix strings and integers in one set: two integer codes
Malformed == 999992
Special == {Missing, Malformed}

VARIABLES n,        \* number of stages
          start,    \* the stage the controller starts from (1 = from the beginning; > 1 = `elaunch --restart`)
          given,    \* [1..n -> Grid \cup Special]
          w,        \* [1..n -> Int]  normalised weights (only meaningful when loaded)
          loaded,
          st,       \* [1..n -> {"pending","active","transit","finished"}]
          prog,     \* [1..n -> 0..4] completed quarter of the stage's components
          mon,      \* the status monitor's CheckStatus in progress: [pc, cur, T, F, s0, a]
          reported  \* the total progress CheckStatus last wrote to the status file, in 1/(4*Unit); -1 before the first
vars == <<n, start, given, w, loaded, st, prog, mon, reported>>

RECURSIVE SumTo(_, _)
SumTo(f, k) == IF k = 0 THEN 0 ELSE f[k] + SumTo(f, k - 1)
Sum(f, k) == SumTo(f, k)

Num(v) == IF v \in Special THEN 0 ELSE v

(* int(x*1000) of the implementation: truncation towards zero of the thousandths *)
Trunc(x) == IF x >= 0 THEN x \div 10 ELSE -((-x) \div 10)

(* A missing weight counts as 0 (the property allows it: the result is non-negative and sums to one).  *)
(* A malformed weight (not a number) makes the package invalid: the loader must reject it.             *)
Rejected(g, k) == \E i \in 1..k : g[i] = Malformed
Usable(g, k) == /\ \A i \in 1..k : g[i] # Malformed /\ Num(g[i]) >= 0
                /\ Sum([i \in 1..k |-> Num(g[i])], k) = Unit

(* The fallback of the loader: an equal split in thousandths, the remainder goes to the last stage *)
Fallback(k) == [i \in 1..k |-> IF i < k THEN (1000 \div k) * 10 ELSE (1000 - (k - 1) * (1000 \div k)) * 10]

(* Specified normalisation: the given weights when they are usable, the fallback otherwise *)
Normalise(g, k) == IF Usable(g, k) THEN [i \in 1..k |-> Num(g[i])] ELSE Fallback(k)

(* What the thousandth-truncating acceptance test of the loader computes; kept in the spec as a named   *)
(* deviation so that TLC can show on which inputs it differs from Normalise (see DeviationIsHarmless).   *)
TruncAccepts(g, k) == Sum([i \in 1..k |-> Trunc(Num(g[i]))], k) = 1000

(* CheckStatus of the status monitor runs concurrently with the controller.  It reads the current stage (MonBegin),  *)
(* then - under the controller's lock, i.e. atomically - the stages in transit and the finished stages (MonSnap),     *)
(* then the progress of the current stage and of every stage in transit, and writes the weighted sum (MonSum).        *)
(* s0 / a are history: the state when CheckStatus began and the one controller action that happened meanwhile.         *)
MonIdle == [pc |-> "idle", cur |-> 0, T |-> {}, F |-> {}, s0 |-> <<>>, a |-> <<"none", 0>>]

Init == /\ n \in MinStages..MaxStages
        /\ start \in (IF Restarts THEN 1..n ELSE {1})
        /\ given \in [1..n -> IF UseSpecial THEN Grid \cup Special ELSE Grid]
        /\ w = [i \in 1..n |-> 0]
        /\ loaded = FALSE
        /\ st = [i \in 1..n |-> "pending"]
        /\ prog = [i \in 1..n |-> 0]
        /\ mon = MonIdle
        /\ reported = -1

Note(act) == IF mon.pc = "idle" THEN mon ELSE [mon EXCEPT !.a = act]
(* while a CheckStatus is in progress at most one controller action is explored (bound of the model, see MonBusyOnce) *)
MonQuiet == mon.pc = "idle" \/ mon.a = <<"none", 0>>

Load == /\ ~loaded /\ ~Rejected(given, n)
        /\ loaded' = TRUE
        /\ w' = Normalise(given, n)
        /\ st' = [i \in 1..n |-> IF i < start THEN "finished" ELSE IF i = start THEN "active" ELSE "pending"]   \* Controller.initialise
        /\ UNCHANGED <<n, start, given, prog, mon, reported>>

(* a component of an active / in-transit stage finishes *)
Advance(i) == /\ i <= n /\ loaded /\ MonQuiet /\ st[i] \in {"active", "transit"} /\ prog[i] < 4
              /\ prog' = [prog EXCEPT ![i] = @ + 1]
              /\ mon' = Note(<<"Advance", i>>)
              /\ UNCHANGED <<n, start, given, w, loaded, st, reported>>

(* the controller moves on to stage i+1; stage i either is finished or stays in transit *)
NextStage(i, how) == /\ i <= n /\ loaded /\ MonQuiet /\ st[i] = "active" /\ i < n /\ st[i + 1] = "pending"
                     /\ how \in {"finished", "transit"}
                     /\ st' = [st EXCEPT ![i] = how, ![i + 1] = "active"]
                     /\ mon' = Note(<<"NextStage" \o how, i>>)
                     /\ UNCHANGED <<n, start, given, w, loaded, prog, reported>>

Finish(i) == /\ i <= n /\ loaded /\ MonQuiet
             /\ \/ st[i] = "transit"
                \/ st[i] = "active" /\ i = n
             /\ st' = [st EXCEPT ![i] = "finished"]
             /\ mon' = Note(<<"Finish", i>>)
             /\ UNCHANGED <<n, start, given, w, loaded, prog, reported>>

Current == IF \E i \in 1..n : st[i] = "active" THEN CHOOSE i \in 1..n : st[i] = "active" ELSE n
Quarter(i) == IF st[i] = "finished" THEN 4 ELSE prog[i]          \* Controller.get_stage_status: finished components / all

MonBegin == /\ loaded /\ mon.pc = "idle"
            /\ mon' = [pc |-> "begun", cur |-> Current, T |-> {}, F |-> {}, s0 |-> <<st, prog>>, a |-> <<"none", 0>>]
            /\ UNCHANGED <<n, start, given, w, loaded, st, prog, reported>>
MonSnap ==  /\ mon.pc = "begun"
            /\ mon' = [mon EXCEPT !.pc = "snapped",
                                   !.T = {i \in 1..n : st[i] \in {"active", "transit"}} \ {mon.cur},
                                   !.F = {i \in 1..n : st[i] = "finished"} \ {mon.cur}]
            /\ UNCHANGED <<n, start, given, w, loaded, st, prog, reported>>
MonSum ==   /\ mon.pc = "snapped"
            /\ reported' = Sum([i \in 1..n |-> IF i = mon.cur \/ i \in mon.T THEN Quarter(i) * w[i]
                                                ELSE IF i \in mon.F THEN 4 * w[i] ELSE 0], n)
            /\ mon' = [mon EXCEPT !.pc = "idle"]
            /\ UNCHANGED <<n, start, given, w, loaded, st, prog>>

Next == \/ Load
        \/ MonBegin \/ MonSnap \/ MonSum
        \/ \E i \in 1..MaxStages : Advance(i)          \* constant bounds: TLC then reports coverage per action
        \/ \E i \in 1..MaxStages : Finish(i)
        \/ \E i \in 1..MaxStages, h \in {"finished", "transit"} : NextStage(i, h)

(* the controller alone (no CheckStatus in progress): used to enumerate the states the progress formula is checked on *)
NextNoMon == \/ Load
             \/ \E i \in 1..MaxStages : Advance(i)
             \/ \E i \in 1..MaxStages : Finish(i)
             \/ \E i \in 1..MaxStages, h \in {"finished", "transit"} : NextStage(i, h)

SpecNoMon == Init /\ [][NextNoMon]_vars
Spec == Init /\ [][Next]_vars

(* total progress as CheckStatus computes it, in 1/(4*Unit) *)
Contribution(i) == CASE st[i] = "finished" -> 4 * w[i]
                     [] st[i] \in {"active", "transit"} -> prog[i] * w[i]
                     [] OTHER -> 0
Total == Sum([i \in 1..n |-> Contribution(i)], n)

---------------------------------------------------------------------------
(* Properties of C20 *)
WeightsNonNegative == loaded => \A i \in 1..n : w[i] >= 0
WeightsSumToOne    == loaded => Sum(w, n) = Unit
GivenPreserved     == (loaded /\ Usable(given, n)) => \A i \in 1..n : w[i] = Num(given[i])
TotalInRange       == loaded => (0 <= Total /\ Total <= 4 * Unit)
ReportedInRange    == reported = -1 \/ (0 <= reported /\ reported <= 4 * Unit)
TotalCompleteAtEnd == (loaded /\ \A i \in 1..n : st[i] = "finished") => Total = 4 * Unit
TypeOK == /\ n \in 1..MaxStages /\ loaded \in BOOLEAN
          /\ \A i \in 1..n : st[i] \in {"pending", "active", "transit", "finished"} /\ prog[i] \in 0..4

(* progress never decreases while stages only advance (action property) *)
Monotone == [][loaded => Total' >= Total]_vars
(* every CheckStatus reports a value between the true total when it began and the true total when it ended *)

(* emission of cases for the conformance driver *)
EmitCase == (Emit /\ ~loaded) =>
              PrintT(ToJson([n |-> n, given |-> [i \in 1..n |-> given[i]],
                             expected |-> Normalise(given, n),
                             truncAccepts |-> TruncAccepts(given, n), rejected |-> Rejected(given, n),
                             usable |-> Usable(given, n)]))
EmitUsable == (Emit /\ ~loaded /\ Usable(given, n)) =>
              PrintT(ToJson([n |-> n, given |-> [i \in 1..n |-> given[i]], expected |-> Normalise(given, n),
                             truncAccepts |-> TruncAccepts(given, n), rejected |-> FALSE, usable |-> TRUE]))
(* one record per completed CheckStatus: where it began, what the controller did meanwhile, what it reported *)
EmitReport == (Emit /\ loaded /\ mon.pc = "idle" /\ reported # -1 /\ mon.s0 # <<>>) =>
              PrintT(ToJson([n |-> n, start |-> start, given |-> [i \in 1..n |-> given[i]], w |-> w, st0 |-> mon.s0[1], prog0 |-> mon.s0[2],
                             act |-> mon.a[1], arg |-> mon.a[2], reported |-> reported]))
EmitState == (Emit /\ loaded /\ mon.pc = "idle") =>
              PrintT(ToJson([n |-> n, start |-> start, given |-> [i \in 1..n |-> given[i]], w |-> w,
                             st |-> st, prog |-> prog, total |-> Total]))
=============================================================================
