--------------------------- MODULE UserVarsScope ---------------------------
(***************************************************************************)
(* C15 (second family) -- resolved configurations do not depend on the     *)
(* order in which the loader happens to visit the components of a stage.   *)
(*                                                                         *)
(* Code: FlowIRConcrete.instance() (experiment/model/frontends/flowir.py), *)
(* reached by every non-primitive load (replicate()) and by the generation *)
(* of the instance files.  It visits the components grouped by stage; the  *)
(* visiting order inside a stage comes from iterating a SET of             *)
(* (stage, name) tuples, i.e. it changes with PYTHONHASHSEED.  For each    *)
(* component it builds the context                                         *)
(*        global variables  <  variables of the stage  <  own variables    *)
(* and resolves the component's own variables in it.                       *)
(*                                                                         *)
(* Model: one stage with three components.  The package defines            *)
(*   root   globally ("R"),                                                *)
(*   prefix globally ("g"), optionally for the stage ("s"), and optionally *)
(*          in each component: literally ("c<i>") or through the global    *)
(*          variable ("%(root)s-c<i>");                                    *)
(*   label  optionally in each component as "%(prefix)s-x" -- a chain      *)
(*          through a variable the component may or may not define.       *)
(* The command line of every component is "%(prefix)s" or                  *)
(* "%(prefix)s %(label)s".                                                 *)
(*                                                                         *)
(* The loader is modelled as it has to work: Visit(i) resolves component i *)
(* in a context built for that component alone; the components are visited *)
(* in EVERY order (TLC explores all interleavings).  The property:         *)
(*   Scoping     component > stage > global for every reference,           *)
(*   NoLeak      nothing a component resolves was defined by ANOTHER       *)
(*               component,                                                *)
(*   OrderFree   the result of a component does not depend on which        *)
(*               components were visited before it.                        *)
(* Every complete run is emitted with the expected command lines; the      *)
(* driver loads the package non-primitively (in memory, and from disk with *)
(* instance-file generation) in processes with different hash seeds.       *)
(***************************************************************************)
EXTENDS Integers, Sequences, FiniteSets, TLC, Json

CONSTANTS PrefixShapes,   \* subset of {"absent", "literal", "viaglobal"}: how a component defines `prefix`
          LabelShapes,    \* subset of {"absent", "ref"}: whether a component defines label = "%(prefix)s-x"
          Emit

Comps == 1..3
CName == <<"c1", "c2", "c3">>

VARIABLES pdef,      \* [Comps -> PrefixShapes]
          ldef,      \* [Comps -> LabelShapes]
          stage,     \* BOOLEAN: the stage defines prefix
          visited,   \* sequence of the components visited so far (the order the loader happened to take)
          res        \* [Comps -> result | Nothing]
vars == <<pdef, ldef, stage, visited, res>>

Nothing == [prefix |-> "", psrc |-> "", label |-> "", line |-> ""]

(* the value of `prefix` a component sees and who defined it *)
PrefixOf(i) == CASE pdef[i] = "literal"   -> [val |-> CName[i], src |-> CName[i]]
                 [] pdef[i] = "viaglobal" -> [val |-> "R-" \o CName[i], src |-> CName[i]]      \* "%(root)s-c<i>", root is global
                 [] OTHER -> IF stage THEN [val |-> "s", src |-> "stage"] ELSE [val |-> "g", src |-> "global"]

Resolve(i) == LET p == PrefixOf(i)
                  l == IF ldef[i] = "ref" THEN p.val \o "-x" ELSE ""
              IN [prefix |-> p.val, psrc |-> p.src, label |-> l,
                  line |-> IF ldef[i] = "ref" THEN p.val \o " " \o l ELSE p.val]

Init == /\ pdef \in [Comps -> PrefixShapes] /\ ldef \in [Comps -> LabelShapes] /\ stage \in BOOLEAN
        /\ visited = <<>> /\ res = [i \in Comps |-> Nothing]

InSeq(i, s) == \E k \in 1..Len(s) : s[k] = i

Visit(i) == /\ ~InSeq(i, visited)
            /\ visited' = Append(visited, i)
            /\ res' = [res EXCEPT ![i] = Resolve(i)]        \* a context of its own: nothing of res / visited is read
            /\ UNCHANGED <<pdef, ldef, stage>>

Next == \E i \in 1..3 : Visit(i)
Spec == Init /\ [][Next]_vars

Done == Len(visited) = 3

TypeOK == /\ Len(visited) <= 3 /\ \A i \in Comps : (InSeq(i, visited) <=> res[i] # Nothing)
Scoping == \A i \in Comps : InSeq(i, visited) =>
              /\ pdef[i] # "absent" => res[i].psrc = CName[i]
              /\ (pdef[i] = "absent" /\ stage) => res[i].prefix = "s"
              /\ (pdef[i] = "absent" /\ ~stage) => res[i].prefix = "g"
NoLeak == \A i \in Comps : InSeq(i, visited) => res[i].psrc \in {CName[i], "stage", "global"}
OrderFree == \A i \in Comps : InSeq(i, visited) => res[i] = Resolve(i)
(* witness: some component does see another scope than its own (must be violated) *)
AlwaysOwn == \A i \in Comps : InSeq(i, visited) => res[i].psrc = CName[i]

(* one case per definition (the visiting order 1,2,3 stands for all: OrderFree) *)
EmitCase == (Emit /\ Done /\ visited = <<1, 2, 3>>) =>
               PrintT(ToJson([pdef |-> pdef, ldef |-> ldef, stage |-> stage,
                              expected |-> [i \in Comps |-> [line |-> res[i].line, prefix |-> res[i].prefix, label |-> res[i].label]]]))
=============================================================================
