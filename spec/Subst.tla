-------------------------------- MODULE Subst --------------------------------
(***************************************************************************)
(* C10 -- Command-line reference substitution is exact.                    *)
(*                                                                         *)
(* A component (the consumer, in stage ConsumerStage) declares a list of   *)
(* data references and has an argument string in which the references      *)
(* occur, in their relative spelling  name[/file]:method  (only for a      *)
(* producer of the consumer's own stage) or in their absolute spelling     *)
(* stage<N>.name[/file]:method.  ComponentSpecification.resolveArguments   *)
(* has to replace every occurrence by the value of THAT reference (a path  *)
(* for :ref, the contents of the file for :output) and leave the rest of   *)
(* the text alone, whatever the order of the declarations and whatever     *)
(* the relations between the producers' names.                             *)
(*                                                                         *)
(* Text.  A string is the sequence of its tokens; the alphabet is chosen   *)
(* so that one reference string is a substring of another string exactly   *)
(* when its token sequence is a contiguous sub-sequence: names are spelled *)
(* letter by letter ("B","A"), the words stage0, stage1, ref, output, ...  *)
(* and the delimiters are atomic.  The value of reference number i is the  *)
(* opaque token ValTok[i] ("V<i>"); the driver renders it to the real path *)
(* or file contents of the instantiated experiment.                        *)
(*                                                                         *)
(* Parts:                                                                  *)
(*  - the input builder (actions Declare / DeclareUnused / Resolve ...):   *)
(*    a permutation of <= MaxRefs references out of the universe RefU,     *)
(*    each with a usage (which spellings occur, how often), and a style    *)
(*    of the command line (glue text, literal decoys, order);              *)
(*  - Exact: the specified substitution, defined on the TEXT (one pass,    *)
(*    at reference boundaries, longest declared spelling wins);            *)
(*  - the properties: Exact = the structural expectation (every occurrence *)
(*    -> its own value, literals untouched), independence of the order of  *)
(*    declaration;                                                         *)
(*  - Sequential: the algorithm the implementation uses today (one         *)
(*    str.replace per declared reference, in declaration order), kept as a *)
(*    named deviation: TLC shows on which inputs it differs from Exact     *)
(*    (invariant SequentialAgrees is EXPECTED to fail) and the driver      *)
(*    uses it to attribute a mismatch of the real code to its cause;       *)
(*  - Quoting: in one family the file read by an :output reference holds   *)
(*    text that looks like another declared reference: a substituted value *)
(*    is a value, it is not scanned again.                                 *)
(***************************************************************************)
EXTENDS Integers, Sequences, FiniteSets, TLC, Json

CONSTANTS RefU,          \* universe of references: sequence of [st, name, kind, file]
          MaxRefs,       \* number of declared references <= MaxRefs
          Styles,        \* styles of the command line that are explored
          Vias,          \* how the declarations reach the workflow graph: "literal" (the loader rewrites them to the
                         \* absolute spelling), "variable" (the producer's name comes from a %(variable)s: the loader
                         \* leaves the reference alone and it arrives in the spelling it was written in, relative for a
                         \* producer of the consumer's stage), "override" (declared under override.<platform>: never rewritten)
          FullUsage,     \* TRUE: every usage of a reference; FALSE: one occurrence in the preferred spelling
          Faults,        \* TRUE: also the invalid inputs (a declared reference that is not used, an undeclared one)
          Quoting,       \* function i :> j: the file that :output reference i reads CONTAINS the relative spelling of
                         \* reference j (a value may look like a reference; it is a value all the same); <<>> = none
          Emit

ConsumerStage == 1
StageWord(n) == IF n = 0 THEN "stage0" ELSE "stage1"
ValTok == <<"V1", "V2", "V3", "V4", "V5", "V6", "V7", "V8", "V9", "V10", "V11", "V12", "V13", "V14", "V15", "V16",
            "V17", "V18", "V19", "V20", "V21", "V22", "V23", "V24", "V25", "V26", "V27", "V28", "V29", "V30">>
ASSUME Len(RefU) <= Len(ValTok)
U == 1..Len(RefU)

(* kinds: "ref"  = name[/file]:ref    -> working directory of the producer / path of the file below it    *)
(*        "out"  = name/file:output   -> the CONTENTS of the file: verbatim, decoded as utf-8 (undecodable  *)
(*                                       bytes become U+FFFD), minus the trailing newline characters -- as  *)
(*                                       the implementation documents; nothing else (CR, tabs, blanks,      *)
(*                                       inner newlines) is touched                                         *)
(*        "copy" = name[/file]:copy   -> staged into the working directory, never part of the arguments     *)
(* The file part is spelled as the author wrote it (trailing "/", "./", "//", "..", globs): the occurrence  *)
(* that is written exactly like the declared reference is an occurrence of it.  The value is opaque here     *)
(* (ValTok); which file it is and what the file contains is the driver's side of the binding.                *)
Method(i) == CASE RefU[i].kind = "ref" -> "ref" [] RefU[i].kind = "out" -> "output" [] OTHER -> "copy"
FileOf(i) == RefU[i].file
Rel(i) == RefU[i].name \o (IF FileOf(i) = <<>> THEN <<>> ELSE <<"/">> \o FileOf(i)) \o <<":", Method(i)>>
(* a DIRECT reference (rep = "direct": a path of the file system or below the instance, not a component) has   *)
(* one spelling only                                                                                             *)
Abs(i) == IF RefU[i].rep = "direct" THEN Rel(i) ELSE <<StageWord(RefU[i].st), ".">> \o Rel(i)
Str(i, sp) == IF sp = "abs" THEN Abs(i) ELSE Rel(i)
Substituted(i) == RefU[i].kind # "copy"
(* the value of reference i as text: opaque, or the quoted reference text *)
ValOf(i) == IF i \in DOMAIN Quoting THEN Rel(Quoting[i]) ELSE <<ValTok[i]>>
ASSUME \A i \in DOMAIN Quoting : i \in U /\ Quoting[i] \in U /\ RefU[i].kind = "out"
SameStage(i) == RefU[i].st = ConsumerStage

(* how a declared reference is used in the command line: the spellings of its occurrences *)
Usages(i) == IF ~Substituted(i) THEN {<<>>}
             ELSE IF ~FullUsage THEN {IF SameStage(i) THEN <<"rel">> ELSE <<"abs">>}
             ELSE IF SameStage(i) THEN {<<"rel">>, <<"abs">>, <<"rel", "abs">>, <<"abs", "rel">>, <<"rel", "rel">>}
             ELSE {<<"abs">>, <<"abs", "abs">>}

(* ---------------------------------------------------------------------- *)
(* sequences of tokens                                                      *)
IsPrefix(p, s) == Len(p) <= Len(s) /\ SubSeq(s, 1, Len(p)) = p
Contains(s, p) == \E k \in 1..(Len(s) - Len(p) + 1) : SubSeq(s, k, k + Len(p) - 1) = p
Drop(s, k) == SubSeq(s, k + 1, Len(s))
RECURSIVE ReplaceAll(_, _, _)          \* str.replace: left to right, non overlapping
ReplaceAll(s, p, v) == IF Len(s) < Len(p) THEN s
                       ELSE IF IsPrefix(p, s) THEN v \o ReplaceAll(Drop(s, Len(p)), p, v)
                       ELSE <<s[1]>> \o ReplaceAll(Tail(s), p, v)
RECURSIVE Join(_, _)
Join(ss, sep) == IF ss = <<>> THEN <<>> ELSE IF Len(ss) = 1 THEN ss[1] ELSE ss[1] \o sep \o Join(Tail(ss), sep)
Range(f) == {f[k] : k \in DOMAIN f}
Reverse(s) == [k \in 1..Len(s) |-> s[Len(s) + 1 - k]]

(* ---------------------------------------------------------------------- *)
(* state                                                                    *)
VARIABLES decl,      \* declared references in declaration order (indices into RefU)
          usage,     \* usage[k]: spellings of the occurrences of decl[k]
          fault,     \* "none" | "unused" (a declared :ref/:output reference that is not used) | "undeclared"
          extra,     \* the undeclared reference that occurs (0 = none)
          phase,     \* "declaring" | "resolved"
          style,
          via,       \* how the declarations reach the graph (see Vias); the result must not depend on it
          args,      \* the argument string
          out        \* the resolved argument string
vars == <<decl, usage, fault, extra, phase, style, via, args, out>>

(* ---------------------------------------------------------------------- *)
(* the command line.  Elements: <<"lit", tokens>> or <<"occ", i, spelling>>.  The occurrences are listed  *)
(* in the order of the universe (NOT of the declaration) so that permuting the declaration changes          *)
(* nothing but the declaration.                                                                            *)
RECURSIVE OccsFrom(_, _, _)
OccsFrom(k, d, u) ==
  IF k > Len(RefU) THEN <<>>
  ELSE LET here == IF \E j \in 1..Len(d) : d[j] = k
                     THEN LET j == CHOOSE j \in 1..Len(d) : d[j] = k IN [m \in 1..Len(u[j]) |-> <<"occ", k, u[j][m]>>]
                     ELSE <<>>
       IN here \o OccsFrom(k + 1, d, u)
Occs(d, u, x) == OccsFrom(1, d, u) \o (IF x = 0 THEN <<>> ELSE <<<<"occ", x, IF SameStage(x) THEN "rel" ELSE "abs">>>>)

(* styles: "plain"  -v E1 E2 ...                                                                           *)
(*         "opt"    A stage0.A --in=E1 --in=E2 ... BA: ref      (glued option prefix, literal look-alikes)   *)
(*         "path"   En/sub.txt ... E1/sub.txt -v                (glued path suffix, reversed order)          *)
(*         "tail"   -v --b=E1_old --b=E20 --b=E3x2              (letters, digits, "_" right after the reference: *)
(*                  a reference ends where its method ends, whatever follows)                                       *)
(*         "quote"  'E1' 'E2'                                                                                       *)
Tails == <<"_old", "0", "x2">>
Elements(d, u, x, sty) ==
  LET occs == Occs(d, u, x) IN
  CASE sty = "plain" -> <<<<"lit", <<"-v">>>>>> \o occs
    [] sty = "opt"   -> <<<<"lit", <<"A">>>>, <<"lit", <<"stage0", ".", "A">>>>>>
                        \o [k \in 1..Len(occs) |-> <<"glued", <<"--in", "=">>, occs[k], <<>>>>]
                        \o <<<<"lit", <<"B", "A", ":">>>>, <<"lit", <<"ref">>>>>>
    [] sty = "tail"  -> <<<<"lit", <<"-v">>>>>>       \* word characters glued directly AFTER the reference
                        \o [k \in 1..Len(occs) |-> <<"glued", <<"--b", "=">>, occs[k], <<Tails[((k - 1) % 3) + 1]>>>>]
    [] sty = "quote" -> [k \in 1..Len(occs) |-> <<"glued", <<"'">>, occs[k], <<"'">>>>]
    [] OTHER         -> [k \in 1..Len(occs) |-> <<"glued", <<>>, Reverse(occs)[k], <<"/", "sub", ".", "txt">>>>]
                        \o <<<<"lit", <<"-v">>>>>>
RECURSIVE Flatten(_, _)
ElemText(e, subst) == CASE e[1] = "lit" -> e[2]
                        [] e[1] = "occ" -> IF subst THEN ValOf(e[2]) ELSE Str(e[2], e[3])
                        [] OTHER -> e[2] \o (IF subst THEN ValOf(e[3][2]) ELSE Str(e[3][2], e[3][3])) \o e[4]
Flatten(es, subst) == Join([k \in 1..Len(es) |-> ElemText(es[k], subst)], <<" ">>)
Text(d, u, x, sty) == Flatten(Elements(d, u, x, sty), FALSE)
(* the structural expectation: "every occurrence replaced by that reference's own value, all other text untouched" *)
(* (an occurrence of an undeclared reference is other text)                                                        *)
Structural(d, u, x, sty) ==
  LET es == Elements(d, u, x, sty)
      keep(e) == (e[1] = "occ" /\ e[2] = x) \/ (e[1] = "glued" /\ e[3][2] = x)
  IN Join([k \in 1..Len(es) |-> ElemText(es[k], ~keep(es[k]))], <<" ">>)

(* ---------------------------------------------------------------------- *)
(* Exact substitution on the text.  A reference starts where the previous token cannot be part of a         *)
(* reference (start of the text, blank, "="); there the longest spelling of a declared, substituted          *)
(* reference that is a prefix of the rest is replaced by the value of that reference.  The relative spelling *)
(* exists only for producers of the consumer's stage.                                                        *)
Delim == {" ", "=", "'"}
Spellings(d) == {<<i, "abs">> : i \in {j \in Range(d) : Substituted(j)}}
                \cup {<<i, "rel">> : i \in {j \in Range(d) : Substituted(j) /\ SameStage(j)}}
RECURSIVE Scan(_, _, _)
Scan(s, boundary, d) ==
  IF s = <<>> THEN <<>>
  ELSE LET cands == {c \in Spellings(d) : IsPrefix(Str(c[1], c[2]), s)} IN
       IF boundary /\ cands # {}
         THEN LET best == CHOOSE c \in cands : \A e \in cands : Len(Str(c[1], c[2])) >= Len(Str(e[1], e[2]))
              IN ValOf(best[1]) \o Scan(Drop(s, Len(Str(best[1], best[2]))), FALSE, d)    \* the value is not scanned again
         ELSE <<s[1]>> \o Scan(Tail(s), s[1] \in Delim, d)
Exact(s, d) == Scan(s, TRUE, d)

(* The implementation today (graph.py, resolveArguments): for each declared reference in declaration order, *)
(* if the absolute spelling occurs anywhere replace all of it, else if the relative one occurs replace that. *)
RECURSIVE SeqFrom(_, _, _)
SeqFrom(s, d, k) ==
  IF k > Len(d) THEN s
  ELSE LET i == d[k] IN
       IF ~Substituted(i) THEN SeqFrom(s, d, k + 1)
       ELSE IF Contains(s, Abs(i)) THEN SeqFrom(ReplaceAll(s, Abs(i), ValOf(i)), d, k + 1)
       ELSE IF Contains(s, Rel(i)) THEN SeqFrom(ReplaceAll(s, Rel(i), ValOf(i)), d, k + 1)
       ELSE SeqFrom(s, d, k + 1)
Sequential(s, d) == SeqFrom(s, d, 1)

(* ---------------------------------------------------------------------- *)
(* actions                                                                  *)
Init == /\ decl = <<>> /\ usage = <<>> /\ fault = "none" /\ extra = 0 /\ phase = "declaring"
        /\ style = "none" /\ via = "none" /\ args = <<>> /\ out = <<>>

Declare(i, u) == /\ phase = "declaring" /\ Len(decl) < MaxRefs /\ i \notin Range(decl) /\ u \in Usages(i)
                 /\ decl' = Append(decl, i) /\ usage' = Append(usage, u)
                 /\ UNCHANGED <<fault, extra, phase, style, via, args, out>>
(* invalid input 1: a :ref / :output reference is declared but does not occur *)
DeclareUnused(i) == /\ Faults /\ phase = "declaring" /\ Len(decl) < MaxRefs /\ i \notin Range(decl)
                    /\ Substituted(i) /\ fault = "none"
                    /\ decl' = Append(decl, i) /\ usage' = Append(usage, <<>>) /\ fault' = "unused"
                    /\ UNCHANGED <<extra, phase, style, via, args, out>>
Resolve(sty, v) == /\ phase = "declaring" /\ decl # <<>> /\ sty \in Styles /\ v \in Vias /\ via' = v
                   /\ (fault = "none" \/ (sty = "plain" /\ v = "literal"))
                   /\ phase' = "resolved" /\ style' = sty
                   /\ args' = Text(decl, usage, 0, sty)
                   /\ out' = Exact(args', decl)
                   /\ UNCHANGED <<decl, usage, fault, extra>>
(* invalid input 2: a reference that is not declared occurs in the command line *)
ResolveUndeclared(x) == /\ Faults /\ phase = "declaring" /\ decl # <<>> /\ fault = "none"
                        /\ x \notin Range(decl) /\ Substituted(x) /\ Len(decl) < MaxRefs
                        /\ phase' = "resolved" /\ style' = "plain" /\ via' = "literal" /\ fault' = "undeclared" /\ extra' = x
                        /\ args' = Text(decl, usage, x, "plain")
                        /\ out' = Exact(args', decl)
                        /\ UNCHANGED <<decl, usage>>
Next == \/ \E i \in U : \E u \in {<<>>, <<"rel">>, <<"abs">>, <<"rel", "abs">>, <<"abs", "rel">>, <<"rel", "rel">>, <<"abs", "abs">>} : Declare(i, u)
        \/ \E i \in U : DeclareUnused(i)
        \/ \E sty \in {"plain", "opt", "path", "tail", "quote"}, v \in {"literal", "variable", "override"} : Resolve(sty, v)
        \/ \E x \in U : ResolveUndeclared(x)
Spec == Init /\ [][Next]_vars

(* ---------------------------------------------------------------------- *)
(* properties                                                               *)
TypeOK == /\ phase \in {"declaring", "resolved"} /\ Len(decl) = Len(usage) /\ Len(decl) <= MaxRefs
          /\ fault \in {"none", "unused", "undeclared"} /\ Cardinality(Range(decl)) = Len(decl)

(* every occurrence is replaced by its own value, everything else is untouched *)
ExactIsStructural == phase = "resolved" => out = Structural(decl, usage, extra, style)
(* the result does not depend on the order of the declarations *)
Perms(k) == {p \in [1..k -> 1..k] : \A a, b \in 1..k : a # b => p[a] # p[b]}
OrderIrrelevant == phase = "resolved" =>
                     \A p \in Perms(Len(decl)) : Exact(args, [k \in 1..Len(decl) |-> decl[p[k]]]) = out
(* no text of the command line looks like a reference after the substitution, unless an undeclared one was written *)
NothingLeft == (phase = "resolved" /\ fault # "undeclared" /\ DOMAIN Quoting = {}) =>
                 \A i \in Range(decl) : Substituted(i) => ~Contains(out, Rel(i))

(* the named deviation: EXPECTED TO FAIL -- TLC exhibits an input on which one-replace-per-reference differs *)
SequentialAgrees == (phase = "resolved" /\ fault = "none") => Sequential(args, decl) = out
(* what the verdict of checkDataReferences has to be *)
Verdict == CASE fault = "unused" -> "unused" [] fault = "undeclared" -> "undeclared" [] OTHER -> "ok"
(* the invalid inputs are explored with one occurrence per reference (the interplay of faults with the usages is *)
(* not part of the statement)                                                                                    *)
SingleUse == \A k \in 1..Len(decl) : Len(usage[k]) <= 1
CleanFault == fault # "none" => SingleUse

(* ---------------------------------------------------------------------- *)
RefJson(k) == LET i == decl[k] IN
   [i |-> i, st |-> RefU[i].st, name |-> RefU[i].name, kind |-> RefU[i].kind, method |-> Method(i), file |-> FileOf(i),
    rep |-> RefU[i].rep, last |-> RefU[i].last,
    rel |-> Rel(i), absolute |-> Abs(i), val |-> ValTok[i], usage |-> usage[k],
    quotes |-> IF i \in DOMAIN Quoting THEN Rel(Quoting[i]) ELSE <<>>]
CaseJson == [t |-> "case", decl |-> [k \in 1..Len(decl) |-> RefJson(k)], style |-> style, via |-> via, fault |-> fault,
             extra |-> IF extra = 0 THEN <<>> ELSE Str(extra, "abs"),
             args |-> args, expected |-> out, sequential |-> Sequential(args, decl), verdict |-> Verdict]
EmitCase == (Emit /\ phase = "resolved" /\ CleanFault) => PrintT(ToJson(CaseJson))
ASSUME Emit => PrintT(ToJson([t |-> "universe", refs |-> [i \in U |-> [i |-> i, st |-> RefU[i].st, name |-> RefU[i].name,
                                                                      kind |-> RefU[i].kind, file |-> RefU[i].file, rep |-> RefU[i].rep,
                                                                      last |-> RefU[i].last, val |-> ValTok[i],
                                                                      quotes |-> IF i \in DOMAIN Quoting THEN Rel(Quoting[i]) ELSE <<>>]]]))

(* ---------------------------------------------------------------------- *)
(* universes selected by the generated cfg files.  Names: A, BA (A is a suffix), B-A, x.A (dash / dot before *)
(* the suffix), AB and A0 (A is a prefix: harmless for a correct AND for the sequential algorithm), the same  *)
(* names in both stages.                                                                                      *)
(* rep / last: the producer is a repeating component ("yes") or not; last = number of its most recent repetition *)
(* (-1: it has not produced anything yet).  The value of name:output (no file part) is the stdout of the         *)
(* producer -- of its MOST RECENT repetition (highest number) for a repeating one --, the empty text when there  *)
(* is none yet ("it will be generated").  The spec keeps values opaque; these fields tell the driver what to     *)
(* put on disk.                                                                                                   *)
(* rep = "loop": the producer is the PLACEHOLDER of a DoWhile component (stage<st>.<name> stands for the most     *)
(* recent iteration stage<st>.<last>#<name>); a component outside the loop that references it gets the working   *)
(* directory / files / stdout of that latest iteration.                                                          *)
MkR(st, name, kind, file, rp, last) == [st |-> st, name |-> name, kind |-> kind, file |-> file, rep |-> rp, last |-> last]
MkF(st, name, kind, file) == MkR(st, name, kind, file, "no", 0)
Mk(st, name, kind) == MkF(st, name, IF kind = "reff" THEN "ref" ELSE kind,
                          IF kind \in {"reff", "out"} THEN <<"out", ".", "txt">> ELSE <<>>)
nA == <<"A">>
nBA == <<"B", "A">>
nBdA == <<"B", "-", "A">>
nxA == <<"x", ".", "A">>
nAB == <<"A", "B">>
nA0 == <<"A", "0">>
RefUQuick == << Mk(1, nA, "ref"), Mk(0, nA, "ref"), Mk(1, nBA, "ref"), Mk(0, nBA, "ref"),
                Mk(1, nA, "out"), Mk(0, nA, "out"), Mk(1, nBA, "out"), Mk(0, nBA, "reff"),
                Mk(1, nA, "copy"), Mk(0, nA, "copy") >>
RefUThree == << Mk(1, nA, "ref"), Mk(0, nA, "ref"), Mk(1, nBA, "ref"), Mk(0, nBA, "ref"),
                Mk(1, nA, "out"), Mk(0, nA, "out"), Mk(1, nBA, "out"), Mk(0, nBA, "reff") >>
(* stage1.A/out.txt contains the text "BA:ref"; stage0.A/out.txt contains "A:ref" *)
RefUQuote == << Mk(1, nA, "out"), Mk(1, nBA, "ref"), Mk(0, nA, "out"), Mk(1, nA, "ref"), Mk(0, nBA, "ref") >>
QuotingTwo == (1 :> 2) @@ (3 :> 4)
NoQuoting == <<>>
(* contents classes of :output files (one file per class in every producer's directory, see the driver) *)
Txt(w) == <<w, ".", "txt">>
RefUContents == << MkF(0, nA, "out", Txt("nl")), MkF(0, nA, "out", Txt("nl2")), MkF(0, nA, "out", Txt("crlf")),
                   MkF(1, nA, "out", Txt("cr")), MkF(0, nA, "out", Txt("tab")), MkF(1, nA, "out", Txt("utf8")),
                   MkF(0, nA, "out", Txt("bin")), MkF(1, nA, "out", Txt("empty")), MkF(0, nA, "out", Txt("inner")),
                   MkF(1, nA, "out", Txt("blank")), Mk(1, nA, "out"), Mk(1, nBA, "ref") >>
(* spellings of the file part *)
fDir == <<"outputs", "/">>
fDot == <<".", "/", "out", ".", "txt">>
fDbl == <<"sub", "/", "/", "x", ".", "txt">>
fUp == <<"sub", "/", "..", "/", "out", ".", "txt">>
fGlob == <<"out", ".", "tx", "*">>       \* matches out.txt only (there is an out.stdout next to it)
RefUPaths == << MkF(1, nA, "ref", fDir), MkF(0, nA, "ref", fDir), MkF(1, nA, "ref", fDot), MkF(1, nBA, "ref", fDbl),
                MkF(0, nA, "ref", fUp), MkF(1, nA, "ref", fGlob),
                MkF(1, nA, "out", fDot), MkF(0, nBA, "out", fDot), MkF(1, nA, "out", fUp), MkF(0, nA, "out", fDbl),
                MkF(1, nBA, "out", fGlob),
                MkF(1, nA, "copy", fDir), MkF(0, nA, "copy", <<"*", ".", "txt">>),
                Mk(1, nA, "ref"), Mk(1, nA, "reff"), Mk(1, nA, "out") >>
(* name:output without a file part: plain producers (run / not yet run) and repeating producers whose newest   *)
(* repetition is 0, 9, 10, 100 (the engine keeps the five newest streams/<n>.stdout) or that have none yet        *)
nR0 == <<"R", "0">>
nR9 == <<"R", "9">>
nR10 == <<"R", "1", "0">>
nR100 == <<"R", "1", "0", "0">>
nRn == <<"R", "n">>
nQ == <<"Q">>
RefUStdout == << MkF(1, nA, "out", <<>>), MkF(0, nA, "out", <<>>), MkR(0, nQ, "out", <<>>, "no", -1),
                 MkR(0, nR0, "out", <<>>, "yes", 0), MkR(0, nR9, "out", <<>>, "yes", 9), MkR(0, nR10, "out", <<>>, "yes", 10),
                 MkR(1, nR100, "out", <<>>, "yes", 100), MkR(0, nRn, "out", <<>>, "yes", -1),
                 MkR(0, nR10, "ref", <<>>, "yes", 10), Mk(1, nA, "ref") >>
nW == <<"W">>
LoopU(N) == << MkR(0, nW, "ref", <<>>, "loop", N), MkR(0, nW, "ref", <<"out", ".", "txt">>, "loop", N),
               MkR(0, nW, "out", <<"out", ".", "txt">>, "loop", N), MkR(0, nW, "out", <<>>, "loop", N),
               Mk(1, nW, "ref"), Mk(0, nA, "ref"), Mk(1, nA, "out") >>
RefULoop0 == LoopU(0)
RefULoop1 == LoopU(1)
RefULoop2 == LoopU(2)
MkD(path) == [st |-> -1, name |-> path, kind |-> "ref", file |-> <<>>, rep |-> "direct", last |-> 0]
RefUGlue == << Mk(1, nA, "ref"), Mk(0, nA, "ref"), Mk(1, nBA, "ref"), Mk(0, nA, "out"), Mk(1, nA, "reff"),
               MkD(<<"/", "shared", "/", "lib", ".", "db">>), MkD(<<"data", "/", "in", ".", "txt">>) >>
RefUSix == << Mk(1, nA, "ref"), Mk(0, nA, "ref"), Mk(1, nBA, "ref"), Mk(0, nBA, "ref"), Mk(1, nA, "out"), Mk(0, nA, "out") >>
RefUWide == << Mk(1, nA, "ref"), Mk(0, nA, "ref"), Mk(1, nBA, "ref"), Mk(0, nBA, "ref"),
               Mk(1, nBdA, "ref"), Mk(0, nxA, "ref"), Mk(1, nxA, "ref"), Mk(1, nAB, "ref"), Mk(0, nA0, "ref"),
               Mk(1, nA, "reff"), Mk(0, nA, "reff"), Mk(1, nBA, "reff"),
               Mk(1, nA, "out"), Mk(0, nA, "out"), Mk(1, nBA, "out"), Mk(0, nxA, "out"),
               Mk(1, nA, "copy"), Mk(0, nBA, "copy") >>
RefUWide12 == SubSeq(RefUWide, 1, 12)
=============================================================================
