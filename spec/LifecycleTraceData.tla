---- MODULE LifecycleTraceData ----
\* sample; generated per batch by harness/checks/g03.py
EXTENDS TLC
Traces == <<
  [sc |-> 1, steps |-> <<
    <<"NewStatus", "new", "-", 0, 0, <<"Initialising", "Initialising", "N/A", 0, 0, 0, FALSE, FALSE, FALSE>>, <<"none", "none", "N/A", 0, 0, 0, FALSE, FALSE, FALSE>>, 1, 0, <<<<"running", "running">>, <<"running">>>>, <<<<FALSE, FALSE>>, <<FALSE>>>>, "off">>
  >>]
>>
====
