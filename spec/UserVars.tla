------------------------------ MODULE UserVars ------------------------------
(***************************************************************************)
(* C15 -- loading a package is deterministic; user variable files are      *)
(* layered in the order given, the last one winning.                       *)
(*                                                                         *)
(* Code: FlowIRExperimentConfiguration.__init__ / parametrize (handling of *)
(* `variable_files`), layer_many_variable_files (one override_object per   *)
(* file, in list order), _patch_in_variable_files (the layered document is *)
(* injected per stage: stage scope over global scope), experiment/model/   *)
(* conf.py; Experiment.experimentFromPackage (data.py) layers the files    *)
(* itself and hands one aggregated file on.                                *)
(*                                                                         *)
(* What TLC can and cannot do here.  A hash seed, the iteration order of a *)
(* Python set or of a directory listing are not things a TLA+ model can    *)
(* vary meaningfully; the model's role for C15 is                          *)
(*   (a) the ORDER-FREE ORACLE: the specified result of loading is a        *)
(*       function of the documents (as mappings) and of the ORDER OF THE   *)
(*       LIST of variable files only.  `pres` (how the very same input is  *)
(*       presented: key order of the YAML mappings, order in which the     *)
(*       file system lists directories, the hash seed of the process) is a *)
(*       variable of the model that no operator of the oracle reads --     *)
(*       stated as the action property PresentationIrrelevant;             *)
(*   (b) the ENUMERATION of every (definitions x list of files) case with  *)
(*       its expected value, and the proof obligation that the loop of     *)
(*       layer_many_variable_files (one LayerFile action per iteration)    *)
(*       computes "the last definer wins" (invariant LastDefinerWins).     *)
(* The conformance driver loads every emitted case in separate processes   *)
(* (different PYTHONHASHSEED, differently ordered but equal documents,     *)
(* shuffled directory listings) and requires the spec's value and byte     *)
(* identical canonical dumps.                                              *)
(*                                                                         *)
(* Model: three user variable files 1..3.  A file defines a subset of the  *)
(* keys  gv = variable v in the global scope,  sv / sw = v / w in the scope *)
(* of stage 0, gw = variable w in the global scope (its "shape").  The value *)
(* file f gives to key k is the opaque string "f<f>.<k>".  The package     *)
(* itself defines v and w globally ("pkg.v", "pkg.w") and has components   *)
(* in stage 0 and stage 1 whose command lines are "%(v)s %(w)s".           *)
(* `order` is the list handed to the loader: any sequence over the files,  *)
(* REPETITIONS INCLUDED (a file named twice is layered twice, so its last  *)
(* position counts -- a loader that de-duplicates must keep the last).     *)
(***************************************************************************)
EXTENDS Integers, Sequences, FiniteSets, TLC, Json

CONSTANTS Shapes,       \* the shapes a file may have: subset of ShapeNames
          MaxLen,       \* longest list of files
          NumPres,      \* number of presentations of the same input
          Emit

Files == 1..3
Keys == {"gv", "sv", "gw", "sw"}       \* sw = variable w in the scope of stage 0 (a second variable of the same stage)
ShapeNames == {"none", "gv", "sv", "gv+sv", "gw", "gv+gw", "sv+gw", "sw", "sv+sw"}
KeysOf(shape) == CASE shape = "none" -> {} [] shape = "gv" -> {"gv"} [] shape = "sv" -> {"sv"}
                   [] shape = "gv+sv" -> {"gv", "sv"} [] shape = "gw" -> {"gw"} [] shape = "gv+gw" -> {"gv", "gw"}
                   [] shape = "sv+gw" -> {"sv", "gw"} [] shape = "sw" -> {"sw"} [] shape = "sv+sw" -> {"sv", "sw"}
ASSUME Shapes \subseteq ShapeNames /\ "none" \in Shapes /\ MaxLen \in 1..4 /\ NumPres \in 1..8

FName == <<"f1", "f2", "f3">>
Val(f, k) == FName[f] \o "." \o k
Undefined == "undefined"

VARIABLES shape,    \* [Files -> Shapes]: what each file defines
          order,    \* the files layered so far, in the order given
          agg,      \* [Keys -> value | Undefined]: the aggregate document of layer_many_variable_files
          pres      \* presentation of the input (never read by the oracle)
vars == <<shape, order, agg, pres>>

Defines(f, k) == k \in KeysOf(shape[f])

Init == /\ shape \in [Files -> Shapes]
        /\ order = <<>>
        /\ agg = [k \in Keys |-> Undefined]
        /\ pres = 0

(* one iteration of `for path in variable_files: override_object(agg, read(path))`: keys of the file replace the *)
(* aggregate's, all other keys stay                                                                              *)
LayerFile(f) == /\ Len(order) < MaxLen
                /\ order' = Append(order, f)
                /\ agg' = [k \in Keys |-> IF Defines(f, k) THEN Val(f, k) ELSE agg[k]]
                /\ UNCHANGED <<shape, pres>>

(* the same input presented differently (key order, listing order, hash seed): nothing the oracle depends on *)
Represent(p) == /\ p # pres /\ p < NumPres /\ pres' = p /\ UNCHANGED <<shape, order, agg>>

Next == (\E f \in 1..3 : LayerFile(f)) \/ (\E p \in 0..7 : Represent(p))
Spec == Init /\ [][Next]_vars

---------------------------------------------------------------------------
(* The specified result as a function of (shape, order) only *)

Definers(k, ord) == {i \in 1..Len(ord) : k \in KeysOf(shape[ord[i]])}
Max(S) == CHOOSE x \in S : \A y \in S : y <= x
(* "layered in the order given, the last one winning" *)
Layered(k, ord) == IF Definers(k, ord) = {} THEN Undefined ELSE Val(ord[Max(Definers(k, ord))], k)

(* the value a component of a stage sees: stage scope over global scope over the package's own definition *)
Effective(stage, var, ord) ==
    LET s == IF stage = 0 THEN Layered(IF var = "v" THEN "sv" ELSE "sw", ord) ELSE Undefined
        g == Layered(IF var = "v" THEN "gv" ELSE "gw", ord)
    IN IF s # Undefined THEN s ELSE IF g # Undefined THEN g ELSE "pkg." \o var
CommandLine(stage, ord) == Effective(stage, "v", ord) \o " " \o Effective(stage, "w", ord)

Reverse(s) == [i \in 1..Len(s) |-> s[Len(s) + 1 - i]]
Expected(ord) == [layered |-> [k \in Keys |-> Layered(k, ord)],
                  c0 |-> CommandLine(0, ord), c1 |-> CommandLine(1, ord)]

TypeOK == /\ shape \in [Files -> Shapes] /\ order \in Seq(Files) /\ Len(order) <= MaxLen /\ pres \in 0..(NumPres - 1)
          /\ \A k \in Keys : agg[k] = Undefined \/ \E f \in Files : agg[k] = Val(f, k)

(* C15: the loop computes "the last definer wins" -- for every prefix of every list *)
LastDefinerWins == \A k \in Keys : agg[k] = Layered(k, order)
(* a key nobody defines stays undefined; a key somebody defines is defined (no file is dropped, none invented) *)
NothingLostNothingInvented == \A k \in Keys : (agg[k] = Undefined) <=> (\A i \in 1..Len(order) : ~Defines(order[i], k))
(* naming a file again moves it to the end: the list, not the set, of files decides *)
RepetitionKeepsLast == \A f \in Files : (Len(order) > 0 /\ order[Len(order)] = f) =>
                          \A k \in Keys : Defines(f, k) => agg[k] = Val(f, k)
(* the oracle is order-free: it does not change when only the presentation changes *)
PresentationIrrelevant == [][(order' = order /\ shape' = shape) => (agg' = agg /\ Expected(order') = Expected(order))]_vars

(* the result DOES depend on the order of the list (witness for the vacuity guard, expected to be violated) *)
OrderNeverMatters == Expected(order) = Expected(Reverse(order))

---------------------------------------------------------------------------
(* files that are not in the list are never read: only the cases in which they define nothing are emitted (the invariants *)
(* above are checked on all states)                                                                                 *)
Canonical == \A f \in Files : (\A i \in 1..Len(order) : order[i] # f) => shape[f] = "none"
EmitCase == (Emit /\ Len(order) > 0 /\ pres = 0 /\ Canonical) =>
               PrintT(ToJson([shape |-> shape, order |-> order, expected |-> Expected(order),
                              sensitive |-> Expected(order) # Expected(Reverse(order))]))
=============================================================================
