------------------------------ MODULE Validate ------------------------------
(***************************************************************************)
(* C11 -- A workflow that loads is structurally executable; a broken one   *)
(* is rejected.                                                            *)
(*                                                                         *)
(* The base workflows are the family of spec/Replicate.tla (this module    *)
(* EXTENDS it and re-uses its builder actions AddComponent / AddRef): they *)
(* are valid by construction (acyclic, unique identifiers, resolvable      *)
(* references) and only those whose replication is well defined            *)
(* (Expansion(comps).status = "ok") are mutated.                           *)
(*                                                                         *)
(* Action Mutate(f) applies ONE fault f = [kind, i, j, site] to the built  *)
(* workflow: nothing / drop a component / rename a reference (to a name or *)
(* to a stage that does not exist) / add an edge that closes a cycle /     *)
(* duplicate an identifier / misspell an option key / give a typed option  *)
(* a value of another class (every site x every class, Rule(site, cls)     *)
(* says what the loader owes) / remove the definition of a variable -- at  *)
(* every position where the fault applies.  The mutated workflow `mw`      *)
(* names producers by (stage, name), so dangling references, duplicates    *)
(* and cycles are expressible.                                             *)
(*                                                                         *)
(* Valid(mw) is the declarative definition of "structurally executable".   *)
(* Verdict(mw) is the operational definition: the phases of a loader       *)
(* (schema, identifiers, variables, references, topological sort) with the *)
(* first failing phase as the reason.  TLC checks that they agree on every *)
(* mutant; the conformance driver checks that the real loader agrees with  *)
(* Valid: accepted <=> Valid, and a refusal is an invalid-configuration    *)
(* error.  A mutation that keeps the workflow valid (dropping a component  *)
(* nobody consumes from, removing a variable nobody uses) must load.       *)
(***************************************************************************)
EXTENDS Replicate

CONSTANTS FaultKinds,     \* subset of {"none","drop","rename","restage","cycle","dup","key","type","var"}
          EmitV           \* TRUE: print every mutant as JSON for the conformance driver

VARIABLES mw,       \* the mutated workflow: [comps: Seq of named components, gvars: set of defined global variables]
          fault,    \* the fault that was applied
          verdict   \* Verdict(mw)
vvars == <<comps, svals, phase, order, out, mw, fault, verdict>>

---------------------------------------------------------------------------
(* Option sites.  A key site is applicable where the key is present in the rendered component. *)
KeySites == {"command", "references", "workflowAttributes", "arguments", "executable", "replicate", "aggregate", "backend",
             "alien",      \* "alien": a key that resembles no known key; the others are misspellings of known keys
             "toplevel",   \* a misspelled key of the FlowIR document itself (`enviroments:`), next to `components:`
             "ovrkey"}     \* a misspelled key inside the component's override for a platform that is NOT the one loaded
(* Typed option sites, by declared type (FlowIR.type_flowir_component), and the classes of values a package may give.   *)
IntSites == {"numberProcesses", "numberThreads", "ranksPerNode", "threadsPerCore", "gpus", "maxRestarts", "repeatRetries",
             "gracePeriod", "replicate"}
FloatSites == {"walltime", "cpuUnitsPerCore", "statusRequestInterval"}
StrSites == {"arguments", "executable", "queue"}
BoolSites == {"aggregate", "isMigratable", "resolvePath"}
ListSites == {"references", "shutdownOn"}
EnumSites == {"backend"}          \* one of a fixed list of names
AllTypeSites == IntSites \cup FloatSites \cup StrSites \cup BoolSites \cup ListSites \cup EnumSites \cup {"stage"}
(* ffrac 2.5, fwhole 2.0, int 2, bool true, numstr "2", boolstr "true"/"false", word "two", list [2], dict {a: 1}, none null *)
AllClasses == {"ffrac", "fwhole", "int", "bool", "numstr", "boolstr", "word", "list", "dict", "none"}
Decl(site) == CASE site \in IntSites -> "int" [] site \in FloatSites -> "float" [] site \in StrSites -> "str"
                [] site \in BoolSites -> "bool" [] site \in ListSites -> "list" [] site \in EnumSites -> "enum" [] OTHER -> "stage"
(* the classes that ARE the declared type (not a fault) *)
Native(decl) == CASE decl = "int" -> {"int"} [] decl = "float" -> {"ffrac", "fwhole"} [] decl = "str" -> {"numstr", "boolstr", "word"}
                  [] decl = "bool" -> {"bool"} [] decl = "list" -> {"list"} [] decl = "stage" -> {"int"} [] OTHER -> {}

(* What the loader owes for a value of class cls at a site:                                                               *)
(*   "reject": a wrongly typed option (the property): words, containers, a fraction or a boolean for a number, a number    *)
(*             for a boolean, anything but a list for a list, anything but a known name for an enumeration;                *)
(*   "accept": the documented lossless conversions: null = the option is not set, "2" for a number (values arrive as text  *)
(*             through variables), 2 for a float, 2 for a string, "true"/"false" for a boolean;                            *)
(*   "either": not decided by the property nor documented: 2.0 for an integer, a float or a boolean for a string (YAML     *)
(*             scalars whose text is a faithful string), null for the mandatory executable.                                *)
Rule(site, cls) ==
    LET d == Decl(site) IN
    CASE cls = "none" -> IF site = "executable" THEN "either" ELSE "accept"
      [] d = "int"   -> IF cls = "numstr" THEN "accept" ELSE IF cls = "fwhole" THEN "either" ELSE "reject"
      [] d = "float" -> IF cls \in {"int", "numstr"} THEN "accept" ELSE "reject"
      [] d = "str"   -> IF cls = "int" THEN "accept" ELSE IF cls \in {"ffrac", "fwhole", "bool"} THEN "either" ELSE "reject"
      [] d = "bool"  -> IF cls = "boolstr" THEN "accept" ELSE "reject"
      [] OTHER -> "reject"

CONSTANTS TypeSitesC,     \* the typed sites of this run (subset of AllTypeSites)
          TypeClassesC    \* the value classes of this run (subset of AllClasses)

GlobalVars == {"rg", "rs", "rc", "msg", "unused"}      \* what the package defines in the global scope

KeyApplies(c, site) == CASE site = "references" -> Len(c.refs) > 0
                         [] site = "workflowAttributes" -> c.rep # "none" \/ c.agg
                         [] site = "replicate" -> c.rep # "none"
                         [] site = "aggregate" -> c.agg
                         [] OTHER -> TRUE
(* A type fault applies where the value is not of the declared type and where a value the loader owes to ACCEPT leaves  *)
(* the rest of the workflow as it is (an accepted value must not change replica counts, aggregation or the arguments'    *)
(* references, which would make the mutant invalid for another reason).                                                   *)
TypeApplies(c, site, cls) ==
    /\ cls \notin Native(Decl(site))
    /\ CASE site = "stage"      -> cls = "word"
         [] site = "replicate"  -> c.rep = "n2" /\ cls # "none"                 \* "2" and 2.0 keep the two copies
         [] site = "aggregate"  -> cls = "none" => ~ c.agg                       \* "true"/"false" is rendered as the current flag
         [] site = "references" -> cls = "none" => Len(c.refs) = 0
         [] site = "arguments"  -> (Rule(site, cls) # "reject") => (Len(c.refs) = 0 /\ ~ c.msg)
         [] OTHER -> TRUE

(* the built workflow with producers named instead of indexed; the last component uses the variable `msg` in its arguments *)
Named(ws) == [c \in 1..Len(ws) |->
                [name |-> ws[c].name, stage |-> ws[c].stage, rep |-> ws[c].rep, agg |-> ws[c].agg,
                 refs |-> [k \in 1..Len(ws[c].refs) |->
                             [ps |-> ws[ws[c].refs[k].p].stage, pn |-> ws[ws[c].refs[k].p].name, sp |-> ws[c].refs[k].sp,
                              path |-> ws[c].refs[k].path, m |-> ws[c].refs[k].m, st |-> ws[c].refs[k].st]],
                 msg |-> c = Len(ws), xkey |-> "", xtype |-> "", xcls |-> ""]]

RemoveAt(s, i) == [k \in 1..(Len(s) - 1) |-> IF k < i THEN s[k] ELSE s[k + 1]]
OtherStage(s) == 1 - s
Exists(cs, s, n) == \E d \in 1..Len(cs) : cs[d].stage = s /\ cs[d].name = n

(* v consumes (transitively) from u in the built workflow *)
RECURSIVE Downstream(_, _, _)
Downstream(ws, u, v) == u = v \/ \E p \in Producers(ws, v) : Downstream(ws, u, p)

StagesContiguous(cs) == \A c \in 1..Len(cs) : \A s \in Stages : s < cs[c].stage => \E d \in 1..Len(cs) : cs[d].stage = s

(* Applicability of a fault f = [kind, i, j, site] to the built workflow ws *)
Applies(ws, f) ==
    LET n == Len(ws) IN
    CASE f.kind = "none"    -> f.i = 0 /\ f.j = 0 /\ f.site = ""
      [] f.kind = "drop"    -> f.i \in 1..n /\ n >= 2 /\ f.j = 0 /\ f.site = "" /\ StagesContiguous(RemoveAt(Named(ws), f.i))
      [] f.kind = "rename"  -> f.i \in 1..n /\ f.j \in 1..Len(ws[f.i].refs) /\ f.site = ""
      [] f.kind = "restage" -> /\ f.i \in 1..n /\ f.j \in 1..Len(ws[f.i].refs) /\ f.site = ""
                               /\ ~ Exists(Named(ws), OtherStage(ws[ws[f.i].refs[f.j].p].stage), ws[ws[f.i].refs[f.j].p].name)
      \* component i gets a reference to component j although j consumes (transitively) from i, or is i itself
      [] f.kind = "cycle"   -> f.i \in 1..n /\ f.j \in 1..n /\ f.site = "" /\ Downstream(ws, f.i, f.j)
                               /\ ~ \E k \in 1..Len(ws[f.i].refs) : ws[f.i].refs[k].p = f.j
      \* component j takes the identifier of component i
      [] f.kind = "dup"     -> f.i \in 1..n /\ f.j \in 1..n /\ f.i # f.j /\ f.site = ""
      [] f.kind = "key"     -> f.i \in 1..n /\ f.j = 0 /\ f.site \in KeySites /\ KeyApplies(Named(ws)[f.i], f.site)
      [] f.kind = "type"    -> f.i \in 1..n /\ f.j = 0 /\ f.site \in AllTypeSites /\ f.cls \in AllClasses
                               /\ TypeApplies(Named(ws)[f.i], f.site, f.cls)
      [] f.kind = "var"     -> f.i = 0 /\ f.j = 0 /\ f.site \in GlobalVars
      [] OTHER -> FALSE

Mutant(ws, f) ==
    LET nm == Named(ws) IN
    CASE f.kind = "drop"    -> [comps |-> RemoveAt(nm, f.i), gvars |-> GlobalVars]
      [] f.kind = "rename"  -> [comps |-> [nm EXCEPT ![f.i].refs[f.j].pn = "zz"], gvars |-> GlobalVars]
      [] f.kind = "restage" -> [comps |-> [nm EXCEPT ![f.i].refs[f.j].ps = OtherStage(@), ![f.i].refs[f.j].sp = "abs"], gvars |-> GlobalVars]
      [] f.kind = "cycle"   -> [comps |-> [nm EXCEPT ![f.i].refs = Append(@, [ps |-> nm[f.j].stage, pn |-> nm[f.j].name, sp |-> "abs",
                                                                            path |-> "", m |-> "ref", st |-> "same"])],
                                gvars |-> GlobalVars]
      [] f.kind = "dup"     -> [comps |-> [nm EXCEPT ![f.j].name = nm[f.i].name, ![f.j].stage = nm[f.i].stage], gvars |-> GlobalVars]
      [] f.kind = "key"     -> [comps |-> [nm EXCEPT ![f.i].xkey = f.site], gvars |-> GlobalVars]
      [] f.kind = "type"    -> [comps |-> [nm EXCEPT ![f.i].xtype = f.site, ![f.i].xcls = f.cls], gvars |-> GlobalVars]
      [] f.kind = "var"     -> [comps |-> nm, gvars |-> GlobalVars \ {f.site}]
      [] OTHER              -> [comps |-> nm, gvars |-> GlobalVars]

---------------------------------------------------------------------------
(* DECLARATIVE: what a structurally executable workflow is *)
UsedVars(c) == (IF c.rep \in {"vg", "vs", "vc"} THEN {VarOf(c.rep)} ELSE {}) \cup (IF c.msg THEN {"msg"} ELSE {})
(* a stage scope defines rs when svals says so (C11 runs with svals = <<0, 2>>), a component with rep = "vc" defines rc itself *)
(* the variable `msg` may ALSO be defined in the scope of one stage (svals[7] - 1): that definition is visible to the        *)
(* components of THAT stage only -- a variable defined only in ANOTHER stage's scope is undefined                            *)
MsgStage == svals[7] - 1
Defined(m, c, v) == \/ v \in m.gvars
                    \/ (v = "rs" /\ StageVal(c.stage) > 0)
                    \/ (v = "msg" /\ MsgStage = c.stage)
                    \/ (v = "rc" /\ c.rep = "vc")

UniqueIdsV(m) == \A i, j \in 1..Len(m.comps) : i # j => ~ (m.comps[i].stage = m.comps[j].stage /\ m.comps[i].name = m.comps[j].name)
ResolvesV(m) == \A c \in 1..Len(m.comps) : \A k \in 1..Len(m.comps[c].refs) :
                   Exists(m.comps, m.comps[c].refs[k].ps, m.comps[c].refs[k].pn)
(* i is a producer of j *)
EdgeV(m, i, j) == \E k \in 1..Len(m.comps[j].refs) : m.comps[j].refs[k].ps = m.comps[i].stage /\ m.comps[j].refs[k].pn = m.comps[i].name
RECURSIVE PathV(_, _, _, _)
PathV(m, i, j, fuel) == fuel > 0 /\ (EdgeV(m, i, j) \/ \E x \in 1..Len(m.comps) : EdgeV(m, i, x) /\ PathV(m, x, j, fuel - 1))
AcyclicV(m) == \A i \in 1..Len(m.comps) : ~ PathV(m, i, i, Len(m.comps))
VarsDefinedV(m) == \A c \in 1..Len(m.comps) : \A v \in UsedVars(m.comps[c]) : Defined(m, m.comps[c], v)
KeysKnownV(m) == \A c \in 1..Len(m.comps) : m.comps[c].xkey = ""
TypesOKV(m) == \A c \in 1..Len(m.comps) : m.comps[c].xtype = "" \/ Rule(m.comps[c].xtype, m.comps[c].xcls) # "reject"
(* the outcome is not decided by the property for this mutant (when nothing else is broken) *)
Unspecified(m) == \E c \in 1..Len(m.comps) : m.comps[c].xtype # "" /\ Rule(m.comps[c].xtype, m.comps[c].xcls) = "either"

Valid(m) == /\ Len(m.comps) >= 1
            /\ UniqueIdsV(m) /\ ResolvesV(m) /\ AcyclicV(m) /\ VarsDefinedV(m) /\ KeysKnownV(m) /\ TypesOKV(m)
Broken(m) == (IF ~ UniqueIdsV(m) THEN {"duplicate"} ELSE {}) \cup (IF ~ ResolvesV(m) THEN {"reference"} ELSE {})
             \cup (IF ~ AcyclicV(m) THEN {"cycle"} ELSE {}) \cup (IF ~ VarsDefinedV(m) THEN {"variable"} ELSE {})
             \cup (IF ~ KeysKnownV(m) THEN {"key"} ELSE {}) \cup (IF ~ TypesOKV(m) THEN {"type"} ELSE {})

---------------------------------------------------------------------------
(* OPERATIONAL: the phases of a loader; the first failing phase is the reason *)
RECURSIVE FirstDuplicate(_, _, _)
FirstDuplicate(cs, k, seen) == IF k > Len(cs) THEN FALSE
                               ELSE IF <<cs[k].stage, cs[k].name>> \in seen THEN TRUE
                               ELSE FirstDuplicate(cs, k + 1, seen \cup {<<cs[k].stage, cs[k].name>>})
RECURSIVE Kahn(_, _)
(* remove, as long as possible, a component none of whose producers remains; a cycle leaves a non-empty rest *)
Kahn(m, rest) == LET free == {j \in rest : ~ \E i \in rest : EdgeV(m, i, j)}
                 IN IF rest = {} THEN TRUE ELSE IF free = {} THEN FALSE ELSE Kahn(m, rest \ free)

Verdict(m) ==
    IF Len(m.comps) = 0 THEN "reject:empty"
    ELSE IF \E c \in 1..Len(m.comps) : m.comps[c].xkey # "" THEN "reject:key"
    ELSE IF \E c \in 1..Len(m.comps) : m.comps[c].xtype # "" /\ Rule(m.comps[c].xtype, m.comps[c].xcls) = "reject" THEN "reject:type"
    ELSE IF FirstDuplicate(m.comps, 1, {}) THEN "reject:duplicate"
    ELSE IF \E c \in 1..Len(m.comps) : \E v \in UsedVars(m.comps[c]) : ~ Defined(m, m.comps[c], v) THEN "reject:variable"
    ELSE IF \E c \in 1..Len(m.comps) : \E k \in 1..Len(m.comps[c].refs) :
               ~ Exists(m.comps, m.comps[c].refs[k].ps, m.comps[c].refs[k].pn) THEN "reject:reference"
    ELSE IF ~ Kahn(m, 1..Len(m.comps)) THEN "reject:cycle"
    ELSE "accept"

---------------------------------------------------------------------------
NoFault == [kind |-> "none", i |-> 0, j |-> 0, site |-> "", cls |-> ""]
InitV == /\ Init
         /\ mw = [comps |-> <<>>, gvars |-> {}]
         /\ fault = NoFault
         /\ verdict = "none"

Mutate(f) == /\ phase = "build" /\ WellFormed(comps)
             /\ Applies(comps, f)
             /\ Expansion(comps).status = "ok"        \* the base workflow is valid
             /\ phase' = "mutated"
             /\ fault' = f
             /\ mw' = Mutant(comps, f)
             /\ verdict' = Verdict(Mutant(comps, f))
             /\ UNCHANGED <<comps, svals, order, out>>

PlainKinds == {"none", "drop", "rename", "restage", "cycle", "dup"}
(* the builder actions of Replicate, leaving the new variables alone *)
AddComponentV(n, s, r, g) == AddComponent(n, s, r, g, 0, FALSE, 0) /\ UNCHANGED <<mw, fault, verdict>>   \* no private variables here
AddRefV(p, sp, pa, m, st) == AddRef(p, sp, pa, m, st) /\ UNCHANGED <<mw, fault, verdict>>

NextV == \/ \E n \in Names, s \in Stages, r \in RepChoices, g \in AggChoices : AddComponentV(n, s, r, g)
         \/ \E p \in 1..MaxComps, sp \in Spellings, pa \in Paths, m \in Methods, st \in ArgStyles : AddRefV(p, sp, pa, m, st)
         \/ \E k \in FaultKinds \cap PlainKinds, i \in 0..MaxComps, j \in 0..MaxComps :
              Mutate([kind |-> k, i |-> i, j |-> j, site |-> "", cls |-> ""])
         \/ \E k \in FaultKinds \cap {"key"}, i \in 1..MaxComps, site \in KeySites :
              Mutate([kind |-> k, i |-> i, j |-> 0, site |-> site, cls |-> ""])
         \/ \E k \in FaultKinds \cap {"type"}, i \in 1..MaxComps, site \in TypeSitesC, cls \in TypeClassesC :
              Mutate([kind |-> k, i |-> i, j |-> 0, site |-> site, cls |-> cls])
         \/ \E k \in FaultKinds \cap {"var"}, site \in GlobalVars :
              Mutate([kind |-> k, i |-> 0, j |-> 0, site |-> site, cls |-> ""])

SpecV == InitV /\ [][NextV]_vvars

---------------------------------------------------------------------------
Mutated == phase = "mutated"
(* the two definitions agree, and the reason given is one of the broken clauses *)
VerdictAgrees == Mutated => ((verdict = "accept") <=> Valid(mw))
ReasonIsSound == (Mutated /\ verdict # "accept") =>
                    \E b \in Broken(mw) : verdict = "reject:" \o b
(* what each fault does to validity *)
FaultEffects == Mutated =>
    /\ fault.kind = "none" => Valid(mw)
    /\ fault.kind \in {"rename", "restage"} => ~ ResolvesV(mw)
    /\ fault.kind = "cycle" => ~ AcyclicV(mw)
    /\ fault.kind = "dup" => ~ UniqueIdsV(mw)
    /\ fault.kind = "key" => ~ KeysKnownV(mw)
    \* a value of another class is a fault exactly when the loader owes a refusal; a documented conversion keeps the workflow valid
    /\ fault.kind = "type" => /\ (~ TypesOKV(mw)) <=> (Rule(fault.site, fault.cls) = "reject")
                               /\ (Rule(fault.site, fault.cls) = "accept") => Valid(mw)
    \* dropping a component is harmless exactly when nobody consumes from it
    /\ fault.kind = "drop" => (Valid(mw) <=> ~ \E c \in 1..Len(comps) : fault.i \in Producers(comps, c))
    \* removing a variable is harmless exactly when every use of it is still covered by a narrower scope
    /\ fault.kind = "var" => (Valid(mw) <=> \A c \in 1..Len(mw.comps) : fault.site \in UsedVars(mw.comps[c]) =>
                                                 Defined(mw, mw.comps[c], fault.site))
(* the base family is valid by construction *)
BaseValid == (phase = "build" /\ WellFormed(comps)) => Valid([comps |-> Named(comps), gvars |-> GlobalVars])
TypeOKV == phase \in {"build", "mutated"} /\ fault.kind \in FaultKinds \cup {"none"}

(* reachability witnesses (expected-to-fail invariants) *)
NeverAcceptsMutant == ~ (Mutated /\ fault.kind # "none" /\ verdict = "accept")
NeverRejects == ~ (Mutated /\ verdict # "accept")

CRefV(r) == <<r.ps, r.pn, r.sp, r.path, r.m, r.st>>
CCompV(c) == [n |-> c.name, s |-> c.stage, rep |-> c.rep, g |-> c.agg, msg |-> c.msg, xkey |-> c.xkey, xtype |-> c.xtype, xcls |-> c.xcls,
              r |-> [k \in 1..Len(c.refs) |-> CRefV(c.refs[k])]]
EmitMutant == (EmitV /\ Mutated) =>
                PrintT(ToJson([comps |-> [c \in 1..Len(mw.comps) |-> CCompV(mw.comps[c])], gvars |-> mw.gvars, sv |-> svals,
                               fault |-> fault, valid |-> Valid(mw), unspec |-> Unspecified(mw), broken |-> Broken(mw), verdict |-> verdict]))
=============================================================================
