------------------------------ MODULE Repeating ------------------------------
(***************************************************************************)
(* C13 -- A repeating observer sees its producers' final output and then   *)
(* stops.                                                                  *)
(*                                                                         *)
(* Model of experiment.runtime.engine.RepeatingEngine.run() (the closures  *)
(* EngineTaskController and schedule_next_instance) driven by the poll     *)
(* loop of experiment.runtime.monitor.CreateMonitor, together with its     *)
(* environment: the producers (new output, the producers-finished          *)
(* notification delivered by ComponentState._notifyProducersFinished), the *)
(* task back-end (duration and outcome of every execution), the rx timer   *)
(* of `kill-after-producers-done-delay` and an external kill().            *)
(*                                                                         *)
(* TIME.  `now` is the clock of the monitor thread in whole seconds (the   *)
(* monitor only ever observes the clock when a sleep(5) or a task ends;    *)
(* task durations are whole seconds >= 1).  Environment events are ordered *)
(* against the monitor's instants with stamps in HALF seconds:             *)
(*    2*now+1  the event happens while the monitor is blocked (asleep in   *)
(*             the poll loop or waiting for its task), strictly between    *)
(*             two instants of the monitor;                                *)
(*    2*now    the event happens in the WINDOW inside EngineTaskController *)
(*             between the evaluation of job.producersHaveOutputSinceDate  *)
(*             and the sampling of producers_done_when_i_started, i.e.     *)
(*             logically before the launch that may follow at `now`.       *)
(* `outputSinceDate(d)` of the implementation is strict (mtime > d), which *)
(* is exactly `lastOut2 > 2*lastLaunched` in these units.                  *)
(*                                                                         *)
(* WHAT IS SPECIFIED.  The actions describe what the code does wherever    *)
(* that is compatible with the property.  Where the code is known to break *)
(* the property the specified behaviour is the repaired one and the        *)
(* behaviour of the code is kept as a NAMED DEVIATION that is only enabled *)
(* when its name is in the constant `Deviations`:                          *)
(*   "stale-suicide"  the kill delay expires while the engine is idle      *)
(*                    between two executions (self.process is the finished *)
(*                    task): the code only kills that stale process and    *)
(*                    sets _suicide; afterwards every EngineTaskController *)
(*                    call takes the `lastAction or self._suicide` branch  *)
(*                    and nothing ever stops the engine.                   *)
(*   "stale-check"    the producers' last output and the notification both *)
(*                    arrive in the WINDOW after a negative output check;  *)
(*                    the code then treats the attempt as a failed final   *)
(*                    attempt and, with no retries left, stops without     *)
(*                    ever observing that output.                          *)
(* With Deviations = {} every invariant below holds (TLC, exhaustive);     *)
(* with a deviation enabled TLC produces the counterexample.  The trace    *)
(* module Repeating_trace enables all deviations and reports which ones    *)
(* were needed to explain a run of the real engine.                        *)
(***************************************************************************)
EXTENDS Integers, Sequences, FiniteSets, TLC, Json

CONSTANTS
    Intervals,        \* repeat intervals (seconds) the component may be configured with
    RetrySet,         \* values of workflowAttributes.repeatRetries
    DieAfterSet,      \* values of kill-after-producers-done-delay in seconds; 0 = option not set
    Modes,            \* kinds of producers, see ModeNames
    Shapes,           \* how the producers-finished notification reaches the engine, see ShapeNames
    Durations,        \* durations (whole seconds >= 1) the back-end may take for one execution
    Outcomes,         \* outcomes of an execution that is not killed: subset of {"ok", "fail", "rexh"}
    NotifyBy,         \* the producers finish at the latest in the gap that follows this instant
    MaxOutputs,       \* number of times new producer output may appear
    MaxFaults,        \* number of canConsume() checks during which the producer's directory cannot be listed
    AllowExternalKill,\* somebody else may call kill() once
    AllowPreNotify,   \* the notification may arrive before run()
    AllowWindow,      \* environment events may fall into the WINDOW
    PreRunOutput,     \* producer output may exist before run() (outside the claim, see C13 notes)
    Deviations,       \* subset of DeviationNames
    Record            \* keep the environment schedule and the expected observations (behaviour emission)

ModeNames == {"repeatingProducer",  \* same stage, producer repeats: consumable when it has output, new output from the timeline
              "plainProducer",      \* same stage, producer does not repeat: producersHaveOutputSinceDate is always True
              "earlierStage",       \* producers of an earlier stage: always consumable, always new output
              "noCheck",            \* check-producer-output: false (same stage): no output check at all
              "mixedProducers"}     \* same stage, one producer repeats and one does not: consumable when BOTH have output;
                                    \* Job.producersHaveOutputSinceDate is True because of the one that does not repeat
DeviationNames == {"stale-suicide", "stale-check"}

(* SHAPES: who the producers are and how their end reaches the engine.                                          *)
(*  "direct": the engine level alone -- one anonymous producer, its end IS the call of                           *)
(*            notify_all_producers_finished() (any of Modes).                                                    *)
(*  the others: the observer is a real ComponentState; stageIn() subscribes to notifyFinished of every producer  *)
(*            component that is still alive and calls notify_all_producers_finished() when ALL of them have       *)
(*            completed (at once when none is alive).  A producer component is identified by stage AND name: the  *)
(*            shapes list the observer's references in order, <<stage, name, alive at stageIn>>; the observer is  *)
(*            in stage 1.                                                                                        *)
ShapeProducers(shape) ==
    CASE shape = "direct"               -> << <<1, "producer", TRUE>> >>
      [] shape = "one"                  -> << <<1, "Simulate", TRUE>> >>
      [] shape = "two"                  -> << <<1, "Simulate", TRUE>>, <<1, "Analyse", TRUE>> >>
      [] shape = "sameNameEarlierLast"  -> << <<1, "Simulate", TRUE>>, <<0, "Simulate", FALSE>> >>  \* same name, other stage,
      [] shape = "sameNameEarlierFirst" -> << <<0, "Simulate", FALSE>>, <<1, "Simulate", TRUE>> >>  \* both reference orders
      [] shape = "twoAndEarlier"        -> << <<1, "Simulate", TRUE>>, <<0, "Simulate", FALSE>>, <<1, "Analyse", TRUE>>, <<0, "Analyse", FALSE>> >>
      [] shape = "earlierOnly"          -> << <<0, "Simulate", FALSE>> >>
ShapeNames == {"direct", "one", "two", "sameNameEarlierLast", "sameNameEarlierFirst", "twoAndEarlier", "earlierOnly"}
LiveSet(shape) == {i \in 1..Len(ShapeProducers(shape)) : ShapeProducers(shape)[i][3]}   \* the producers that must finish first
(* what the observer of a run sees of them: finishing producers are events of their own except in "direct" *)
NLiveSeen(shape) == IF shape = "direct" THEN 0 ELSE Cardinality(LiveSet(shape))
(* plain producers; one of them in the observer's stage: consumable once it has output *)
ShapeModes(shape) == IF shape = "direct" THEN Modes
                     ELSE IF \E i \in 1..Len(ShapeProducers(shape)) : ShapeProducers(shape)[i][1] = 1 THEN {"plainProducer"}
                     ELSE {"earlierStage"}

ASSUME Shapes \subseteq ShapeNames /\ Modes \subseteq ModeNames /\ Deviations \subseteq DeviationNames /\ \A d \in Durations : d >= 1

PollTime  == 5      \* monitor.CreateMonitor default_polling_time, also the floor in schedule_next_instance
ForceWait == 20     \* EngineTaskController: producers finished and more than 20 s since the last launch
None2     == -9     \* "no stamp"

VARIABLES
    cfg,        \* [R, retries0, die, mode, maxd]  configuration of this engine (chosen in Init)
    now,        \* clock of the monitor thread (seconds); -1 before run()
    pc,         \* where the monitor thread is: idle poll begin window sample exec decide last dead
    wakeAt,     \* instant at which the blocked monitor continues (end of sleep / of the task)
    retries,    \* _stateDict['repeatRetries']
    cancel,     \* cancelMonitorEvent.is_set()
    suicide,    \* _suicide
    kc,         \* kernelCompleted
    consume,    \* _consume
    pdone,      \* _producers_are_finished
    timer2,     \* stamp at which the kill-delay timer fires (None2: no timer pending)
    lastL,      \* lastLaunched (0 = primed by run())
    lastF,      \* _stateDict['lastTaskFinishedDate'] (-1: None)
    begun,      \* `beginning` of the monitor's wait loop
    proc,       \* self.process: "none" | "running" | "stale" (a finished task)
    procRc,     \* outcome of the last process: "-" | "ok" | "fail" | "rexh" | "killed"
    procKilled, \* kill() was delivered to the running process
    isNew,      \* isNewOutput of the current EngineTaskController call
    pdwis,      \* producers_done_when_i_started of the current call
    didExec,    \* did_i_execute of the current call
    h,          \* history = what an observer of the engine and of its environment can see (see HInit)
    dev,        \* deviations taken so far
    sched,      \* Record: environment schedule  << [a, s] ... >>
    obs         \* Record: expected observations  << [k, ...] ... >>

vars == <<cfg, now, pc, wakeAt, retries, cancel, suicide, kc, consume, pdone, timer2, lastL, lastF, begun,
          proc, procRc, procKilled, isNew, pdwis, didExec, h, dev, sched, obs>>

Max(S) == CHOOSE x \in S : \A y \in S : y <= x
Min2(a, b) == IF a < b THEN a ELSE b

---------------------------------------------------------------------------
(* History: everything the property talks about, computed only from events  *)
(* an outside observer sees.  The same operators are applied to the events  *)
(* recorded from the real engine by Repeating_trace (observe mode), so the  *)
(* invariants below are evaluated on the implementation's histories by the  *)
(* very same definitions.                                                   *)
HInit == [anyOut   |-> FALSE,  \* producer output exists
          outP     |-> FALSE,  \* ... of the producer that does not repeat / of the repeating one (they only differ
          outR     |-> FALSE,  \*     for "mixedProducers")
          lastOut2 |-> None2,  \* stamp of the last appearance of new output
          nOut     |-> 0,
          pdone    |-> FALSE,  \* notify_all_producers_finished was called
          fin      |-> {},     \* producers (index into ShapeProducers) that have finished since stageIn
          done     |-> FALSE,  \* every producer that was alive at stageIn has finished
          early    |-> FALSE,  \* notify_all_producers_finished was called before that
          tN       |-> 0,      \* instant before the gap in which the last producer finished
          everL    |-> FALSE,  \* an execution was started
          nL       |-> 0,      \* executions started
          lastL    |-> 0,      \* instant of the last start
          nAfter   |-> 0,      \* executions started after the notification
          succAfter|-> FALSE,  \* one of those succeeded
          lastSaw  |-> FALSE,  \* the running / last execution started after the notification
          late     |-> FALSE,  \* an execution was started after succAfter or after the kill delay expired
          bad      |-> FALSE,  \* an execution was started while nothing was consumable
          fired    |-> FALSE,  \* the kill delay expired
          ext      |-> FALSE,  \* kill() was called from outside
          nFault   |-> 0,      \* checks of the producer's directory that failed with a filesystem error
          fRt      |-> -1,     \* repeatRetries when the attempt whose OUTPUT check failed began (-1: no such attempt in progress)
          charged  |-> FALSE]  \* such an attempt was charged to repeatRetries

Consumable(hh, mode) == IF mode = "mixedProducers" THEN hh.outP /\ hh.outR ELSE mode = "earlierStage" \/ hh.anyOut

(* src: which producer wrote -- "P" the plain one, "R" the repeating one, "B" both ("-": there is only one) *)
HOutput(hh, s2, src) == [hh EXCEPT !.anyOut = TRUE, !.lastOut2 = s2, !.nOut = @ + 1,
                                   !.outP = @ \/ src # "R", !.outR = @ \/ src # "P"]
(* nl: number of producers whose end the observer of the run sees as events (NLiveSeen) *)
HPFinish(hh, p, t, nl) == LET f == hh.fin \cup {p} IN
                          [hh EXCEPT !.fin = f, !.done = @ \/ Cardinality(f) >= nl,
                                     !.tN = IF ~hh.done /\ Cardinality(f) >= nl THEN t ELSE @]
HNotify(hh, t, nl) == [hh EXCEPT !.pdone = TRUE, !.early = @ \/ Cardinality(hh.fin) < nl,
                                 !.done = @ \/ nl = 0, !.tN = IF nl = 0 /\ ~hh.done THEN t ELSE @]
HTimer(hh)       == [hh EXCEPT !.fired = TRUE]
HExt(hh)         == [hh EXCEPT !.ext = TRUE]
HFault(hh)       == [hh EXCEPT !.nFault = @ + 1]
HOFault(hh, rt)  == [hh EXCEPT !.nFault = @ + 1, !.fRt = rt]                      \* the output check of an attempt failed
HYield(hh, rt)   == [hh EXCEPT !.fRt = -1, !.charged = @ \/ (hh.fRt >= 0 /\ rt < hh.fRt)]   \* the monitor thread yields next
HLaunch(hh, t, mode) ==
    [hh EXCEPT !.everL = TRUE, !.nL = @ + 1, !.lastL = t, !.lastSaw = hh.pdone,
               !.nAfter = IF hh.pdone THEN @ + 1 ELSE @,
               !.late = @ \/ hh.succAfter \/ hh.fired,
               !.bad = @ \/ ~Consumable(hh, mode)]
HTaskEnd(hh, rc) == [hh EXCEPT !.succAfter = @ \/ (hh.lastSaw /\ rc = "ok")]

(* The property, clause by clause (alive / rt = what isAlive() and repeatRetries report) *)

(* 0. the engine is told that its producers have finished only when every producer component that was     *)
(*    alive when the observer was staged in (identified by stage and name) has finished                    *)
P0_NotifiedOnlyWhenFinished(hh) == ~hh.early

(* 4. an attempt whose output check failed with a filesystem error decides nothing: it is never charged to  *)
(*    repeatRetries (otherwise a transient fault after the producers finished stops the engine early)        *)
P4_FaultNeverCharged(hh) == ~hh.charged

(* 1. never executes before there is producer output it can consume *)
P1_NoExecutionBeforeOutput(hh) == ~hh.bad

(* 2. once the producers have finished it does not stop before it has started an execution that began    *)
(*    after their last output appeared -- unless cancelled from outside, never able to consume, or told  *)
(*    to stop by the configured kill delay (clause 3 lets it stop then)                                  *)
P2_FinalOutputObserved(hh, alive, mode) ==
    (hh.done /\ ~alive) =>
        \/ ~hh.anyOut
        \/ hh.everL /\ hh.lastOut2 <= 2 * hh.lastL
        \/ hh.ext \/ hh.fired
        \/ ~Consumable(hh, mode)

(* 3. it then stops on its own after a bounded number of further attempts *)
P3_BoundedAttempts(hh, c) == hh.nAfter <= c.retries0 + 1 /\ ~hh.late
P3_StopsForAReason(hh, alive, rt) ==
    (~alive /\ ~hh.ext /\ ~hh.fired) => (hh.done /\ hh.pdone /\ (hh.succAfter \/ rt = 0))
(* bounded time.  The protocol needs: the running execution, then at most retries0+1 deciding attempts, one  *)
(* more round for an attempt that straddles the notification, each a wait of at most one (poll-rounded)      *)
(* repeat interval plus an execution.  The property only says "bounded", so the invariant allows TWICE that: *)
(* it is meant to catch an engine that does not stop, not one that polls at another pace.  With a kill delay *)
(* the engine has to stop when the delay expires (+ the second a killed task takes to die).                  *)
CycleWait(c) == LET w == PollTime * ((c.R + PollTime - 1) \div PollTime) IN IF w < PollTime THEN PollTime ELSE w
StopBound(c) == LET byRetries == 2 * (c.maxd + (c.retries0 + 2) * (CycleWait(c) + c.maxd) + CycleWait(c))
                IN IF c.die > 0 THEN Min2(byRetries, c.die + 2) ELSE byRetries
(* an attempt aborted by a filesystem fault costs the monitor's recovery sleeps (30 s + 5 s) *)
FaultSleep == 30
P3_StopsInTime(hh, alive, c, t) == (hh.done /\ alive) => t <= hh.tN + StopBound(c) + (FaultSleep + PollTime) * hh.nFault

---------------------------------------------------------------------------
(* exitReason() / isAlive() of RepeatingEngine (lastExecution is only used by restart(), not modelled) *)
Alive == ~(cancel /\ (proc = "none" \/ kc))
ExitReason == IF Alive THEN "none" ELSE IF proc # "none" /\ procRc = "rexh" THEN "ResourceExhausted" ELSE "Success"

Blocked == pc \in {"idle", "poll", "exec", "fs1", "fs2"} /\ now < wakeAt
InWindow == pc = "window" /\ AllowWindow
Stamp == IF pc = "window" THEN 2 * now ELSE 2 * now + 1
(* a timer that is due at a whole instant (it was armed inside a WINDOW) fires before the monitor's step at that instant *)
TimerFirst == timer2 = 2 * now
OutputSince(t) == h.lastOut2 > 2 * t

Rec(s, e) == IF Record THEN Append(s, e) ELSE s

InitWith(c) ==
    /\ cfg = c
    /\ now = -1 /\ pc = "idle" /\ wakeAt = 0
    /\ retries = cfg.retries0
    /\ cancel = FALSE /\ suicide = FALSE /\ kc = FALSE /\ consume = FALSE
    \* stageIn(): no producer alive -> _notifyProducersFinished() at once (stamp -1)
    /\ pdone = (LiveSet(c.shape) = {})
    /\ timer2 = IF LiveSet(c.shape) = {} /\ c.die > 0 THEN 2 * c.die - 1 ELSE None2
    /\ lastL = 0 /\ lastF = -1 /\ begun = 0
    /\ proc = "none" /\ procRc = "-" /\ procKilled = FALSE
    /\ isNew = FALSE /\ pdwis = FALSE /\ didExec = FALSE
    /\ h = IF LiveSet(c.shape) = {} THEN HNotify(HInit, -1, 0) ELSE HInit
    /\ dev = {} /\ sched = <<>> /\ obs = <<>>

Init == \E sh \in Shapes :
        \E c \in {[R |-> r, retries0 |-> k, die |-> d, mode |-> m, shape |-> sh, maxd |-> Max(Durations)] :
                    r \in Intervals, k \in RetrySet, d \in DieAfterSet, m \in ShapeModes(sh)} : InitWith(c)

---------------------------------------------------------------------------
(* The monitor thread *)

(* what CreateMonitor does when the action returned: `beginning = now`, first pass of the wait loop *)
AfterAction(cancelNow) ==
    /\ begun' = now
    /\ IF cancelNow THEN pc' = "last" /\ UNCHANGED wakeAt
       ELSE pc' = "poll" /\ wakeAt' = now + PollTime          \* interval(0) is False: sleep(5)

(* run(): _prime() and the first iteration of the monitor loop *)
Run ==
    /\ pc = "idle" /\ now = wakeAt /\ ~TimerFirst
    /\ lastL' = now
    /\ pc' = IF cancel THEN "last" ELSE "begin"
    /\ UNCHANGED <<cfg, now, wakeAt, retries, cancel, suicide, kc, consume, pdone, timer2, lastF, begun, proc, procRc,
                   procKilled, isNew, pdwis, didExec, h, dev, sched, obs>>

(* one pass of the wait loop: `while condition(): interval(seconds_waiting) ...` = schedule_next_instance *)
Poll ==
    /\ pc = "poll" /\ now = wakeAt /\ ~TimerFirst
    /\ LET sw == IF lastF >= 0 THEN Min2(now - lastF, now - begun) ELSE now - begun
           go == sw >= PollTime /\ (sw >= cfg.R \/ pdone)
       IN IF cancel THEN pc' = "last" /\ UNCHANGED wakeAt
          ELSE IF go THEN pc' = "begin" /\ UNCHANGED wakeAt
          ELSE pc' = "poll" /\ wakeAt' = now + PollTime
    /\ UNCHANGED <<cfg, now, retries, cancel, suicide, kc, consume, pdone, timer2, lastL, lastF, begun, proc, procRc,
                   procKilled, isNew, pdwis, didExec, h, dev, sched, obs>>

(* EngineTaskController(lastAction=False) up to the output check *)
(* The output check lists the working directory of the repeating producer ("repeatingProducer").  If that     *)
(* fails with a transient filesystem error the exception leaves EngineTaskController: the attempt is ABORTED  *)
(* -- nothing is decided, in particular no retry is consumed -- and CreateMonitor sleeps 30 s + 5 s and calls *)
(* the action again (FaultRecover1/2).  At most MaxFaults attempts are hit (CreateMonitor itself gives up     *)
(* after 5 consecutive ones, which is not modelled).                                                          *)
Begin ==
    /\ pc = "begin"
    /\ IF suicide
       THEN \* `if lastAction or self._suicide: self.kernelCompleted = lastAction` -- only reachable after "stale-suicide"
            /\ kc' = FALSE /\ AfterAction(cancel)
            /\ UNCHANGED <<isNew, h, sched>>
       ELSE LET forced == pdone /\ now - lastL > ForceWait
                stub == cfg.mode # "noCheck" /\ ~forced       \* job.producersHaveOutputSinceDate is called
                lists == stub /\ cfg.mode = "repeatingProducer"
            IN \E raises \in (IF lists /\ h.nFault < MaxFaults THEN {FALSE, TRUE} ELSE {FALSE}) :
               /\ sched' = IF lists /\ MaxFaults > 0 THEN Rec(sched, [a |-> "ocheck", s |-> IF raises THEN 1 ELSE 0]) ELSE sched
               /\ IF raises
                  THEN /\ pc' = "fs1" /\ wakeAt' = now + FaultSleep /\ h' = HYield(HOFault(h, retries), retries)
                       /\ UNCHANGED <<isNew, kc, begun>>
                  ELSE /\ isNew' = IF cfg.mode = "repeatingProducer" /\ ~forced THEN OutputSince(lastL) ELSE TRUE
                       /\ pc' = IF stub THEN "window" ELSE "sample"
                       /\ UNCHANGED <<kc, begun, wakeAt, h>>
    /\ UNCHANGED <<cfg, now, retries, cancel, suicide, consume, pdone, timer2, lastL, lastF, proc, procRc,
                   procKilled, pdwis, didExec, dev, obs>>

(* time.sleep(30) is over: MonitorActionError is raised into the monitor's outer handler, which sleeps 5 s *)
FaultRecover1 ==
    /\ pc = "fs1" /\ now = wakeAt /\ ~TimerFirst
    /\ pc' = "fs2" /\ wakeAt' = now + PollTime
    /\ UNCHANGED <<cfg, now, retries, cancel, suicide, kc, consume, pdone, timer2, lastL, lastF, begun, proc, procRc,
                   procKilled, isNew, pdwis, didExec, h, dev, sched, obs>>
(* ... and goes round its loop: the action again (the last action when cancelled meanwhile) *)
FaultRecover2 ==
    /\ pc = "fs2" /\ now = wakeAt /\ ~TimerFirst
    /\ pc' = IF cancel THEN "last" ELSE "begin"
    /\ UNCHANGED <<cfg, now, wakeAt, retries, cancel, suicide, kc, consume, pdone, timer2, lastL, lastF, begun, proc, procRc,
                   procKilled, isNew, pdwis, didExec, h, dev, sched, obs>>

(* sampling of producers_done_when_i_started, canConsume(), the launch decision.                            *)
(* When the producers' last output AND the notification arrived inside the WINDOW, the answer of the output   *)
(* check made before them ("no new output") is stale although the producers are now known to be finished.     *)
(* An engine may act on the stale answer (the attempt does not execute and, the producers being finished,     *)
(* costs a retry) or look again and execute at once: both are specified.  Acting on the stale answer is       *)
(* harmful in exactly one case: there is no retry left -- the attempt then counts as the failed final attempt *)
(* and the engine stops without ever looking at that output.  That is what the code does; here it is the      *)
(* deviation "stale-check" and the specified behaviour is to look again.                                      *)
(*                                                                                                            *)
(* canConsume() (only called while the latch _consume is False) lists the working directory of a same-stage   *)
(* producer.  The outcome of that CHECK is "has-output", "no-output" or "raises": the listing fails with a     *)
(* transient filesystem error (OSError -> FilesystemInconsistencyError, caught by EngineTaskController: "will  *)
(* assume canConsume=<latch>").  A check that raises has seen nothing: the latch must stay False, so the       *)
(* engine cannot launch before a check that actually saw output.  Faults are explored for the checks made      *)
(* before any output exists, with producers for which the earlier output check does not list the directory     *)
(* itself (FaultModes); at most MaxFaults of them.                                                             *)
FaultModes == {"plainProducer", "noCheck"}
Sample ==
    /\ pc \in {"window", "sample"}
    /\ LET lists == ~consume /\ cfg.mode # "earlierStage"                          \* canConsume() lists the producer's directory
           truth == IF Consumable(h, cfg.mode) THEN "has-output" ELSE "no-output"
           mayFault == lists /\ cfg.mode \in FaultModes /\ ~h.anyOut /\ h.nFault < MaxFaults
           outcomes == IF ~lists THEN {"-"} ELSE IF mayFault THEN {truth, "raises"} ELSE {truth}
           stale == pdone /\ ~isNew /\ pc = "window" /\ h.lastOut2 = 2 * now     \* a second look would see new output
           mustLook == stale /\ retries = 0 /\ "stale-check" \notin Deviations
           looks == IF ~stale THEN {FALSE} ELSE IF mustLook THEN {TRUE} ELSE {TRUE, FALSE}
       IN \E look \in looks, check \in outcomes :
          LET c2 == consume \/ cfg.mode = "earlierStage" \/ check = "has-output"
              h1 == IF check = "raises" THEN HFault(h) ELSE h
              s1 == IF MaxFaults > 0 /\ lists /\ cfg.mode \in FaultModes
                    THEN Rec(sched, [a |-> "check", s |-> IF check = "raises" THEN 1 ELSE 0]) ELSE sched
          IN
          /\ consume' = c2
          /\ pdwis' = pdone
          /\ dev' = IF stale /\ ~look /\ retries = 0 THEN dev \cup {"stale-check"} ELSE dev
          /\ IF c2 /\ (isNew \/ look)
             THEN \E d \in Durations :
                    /\ lastL' = now /\ proc' = "running" /\ procKilled' = FALSE /\ procRc' = "-"
                    /\ didExec' = TRUE /\ pc' = "exec" /\ wakeAt' = now + d
                    /\ h' = HLaunch(h1, now, cfg.mode)
                    /\ sched' = Rec(s1, [a |-> "task", s |-> d])
                    /\ obs' = Rec(IF stale THEN Rec(obs, [k |-> "choice", t |-> now, saw |-> look]) ELSE obs,
                                  [k |-> "launch", t |-> now, saw |-> pdone])
             ELSE /\ didExec' = FALSE /\ pc' = "decide"
                  /\ h' = h1 /\ sched' = s1
                  /\ obs' = IF stale THEN Rec(obs, [k |-> "choice", t |-> now, saw |-> look]) ELSE obs
                  /\ UNCHANGED <<lastL, proc, procKilled, procRc, wakeAt>>
    /\ UNCHANGED <<cfg, now, retries, cancel, suicide, kc, pdone, timer2, lastF, begun, isNew>>

(* my_process.wait() returns *)
TaskEnd ==
    /\ pc = "exec" /\ now = wakeAt /\ ~TimerFirst
    /\ \E rc \in (IF procKilled THEN {"killed"} ELSE Outcomes) :
         /\ procRc' = rc
         /\ h' = HTaskEnd(h, rc)
         /\ sched' = Rec(sched, [a |-> "rc", s |-> CASE rc = "ok" -> 0 [] rc = "fail" -> 1 [] rc = "rexh" -> 2 [] OTHER -> 3])
    /\ proc' = "stale" /\ lastF' = now /\ pc' = "decide"
    /\ UNCHANGED <<cfg, now, wakeAt, retries, cancel, suicide, kc, consume, pdone, timer2, lastL, begun, procKilled,
                   isNew, pdwis, didExec, dev, obs>>

(* `if producers_done_when_i_started or self._suicide:` ... and back in the monitor loop *)
Decide ==
    /\ pc = "decide"
    /\ LET stop == /\ pdwis \/ suicide
                   /\ \/ didExec /\ procRc = "ok"
                      \/ suicide
                      \/ retries = 0
           retry == (pdwis \/ suicide) /\ ~stop
       IN /\ cancel' = (cancel \/ stop)                        \* kill(): cancelMonitorEvent.set()
          /\ kc' = IF (pdwis \/ suicide) /\ ~(didExec /\ procRc = "ok") /\ suicide THEN TRUE ELSE kc
          /\ retries' = IF retry THEN retries - 1 ELSE retries
          /\ AfterAction(cancel \/ stop)
    /\ UNCHANGED <<cfg, now, suicide, consume, pdone, timer2, lastL, lastF, proc, procRc, procKilled, isNew, pdwis,
                   didExec, h, dev, sched, obs>>

(* EngineTaskController(lastAction=True); the monitor thread ends *)
LastAction ==
    /\ pc = "last"
    /\ kc' = TRUE /\ pc' = "dead"
    /\ UNCHANGED <<cfg, now, wakeAt, retries, cancel, suicide, consume, pdone, timer2, lastL, lastF, begun, proc, procRc,
                   procKilled, isNew, pdwis, didExec, h, dev, sched, obs>>

MonitorStep == Run \/ Poll \/ Begin \/ FaultRecover1 \/ FaultRecover2 \/ Sample \/ TaskEnd \/ Decide \/ LastAction

---------------------------------------------------------------------------
(* The environment *)

Tick ==
    /\ Blocked /\ timer2 \notin {2 * now, 2 * now + 1}      \* a due timer fires before the clock moves on
    /\ pdone \/ now < NotifyBy                               \* the producers do finish
    /\ now' = now + 1
    /\ UNCHANGED <<cfg, pc, wakeAt, retries, cancel, suicide, kc, consume, pdone, timer2, lastL, lastF, begun, proc,
                   procRc, procKilled, isNew, pdwis, didExec, h, dev, sched, obs>>

(* Producer component p finishes.  When it was the last one: ComponentState._notifyProducersFinished ->         *)
(* engine.notify_all_producers_finished() (delivered at once: the hops are on schedulers the harness drains).  *)
ProducerFinishes(p) ==
    /\ p \in LiveSet(cfg.shape) \ h.fin
    /\ Blocked \/ InWindow
    /\ pc = "idle" => AllowPreNotify
    /\ LET last == LiveSet(cfg.shape) \ h.fin = {p}
           h1 == HPFinish(h, p, now, NLiveSeen(cfg.shape))
       IN /\ pdone' = last
          /\ timer2' = IF last /\ cfg.die > 0 /\ Alive THEN Stamp + 2 * cfg.die ELSE timer2
          /\ h' = IF last THEN HNotify(h1, now, NLiveSeen(cfg.shape)) ELSE h1
          /\ sched' = Rec(sched, [a |-> IF cfg.shape = "direct" THEN "notify" ELSE "pfinish", s |-> Stamp, p |-> p])
    /\ UNCHANGED <<cfg, now, pc, wakeAt, retries, cancel, suicide, kc, consume, lastL, lastF, begun, proc, procRc,
                   procKilled, isNew, pdwis, didExec, dev, obs>>
NotifyProducersFinished == \E p \in 1..4 : ProducerFinishes(p)

(* a producer writes new output (only while the producers are running) *)
NewOutputFrom(src) ==
    /\ LiveSet(cfg.shape) \ h.fin # {} /\ h.nOut < MaxOutputs
    /\ src \in (IF cfg.mode = "mixedProducers" THEN {"P", "R", "B"} ELSE {"-"})
    /\ Blocked \/ (InWindow /\ (now > lastL \/ PreRunOutput))   \* at the primed instant a WINDOW output would tie with
    /\ pc = "idle" => PreRunOutput                              \* lastLaunched: it counts as output that predates run()
    /\ h' = HOutput(h, Stamp, src)
    /\ sched' = Rec(sched, [a |-> "output", s |-> Stamp, src |-> src])
    /\ UNCHANGED <<cfg, now, pc, wakeAt, retries, cancel, suicide, kc, consume, pdone, timer2, lastL, lastF, begun, proc,
                   procRc, procKilled, isNew, pdwis, didExec, dev, obs>>
NewOutput == \E src \in {"-", "P", "R", "B"} : NewOutputFrom(src)

(* the rx timer of kill-after-producers-done-delay fires: suicide() *)
KillDelay ==
    /\ \/ timer2 = 2 * now                                   \* armed in a WINDOW: due at a whole instant
       \/ timer2 = 2 * now + 1 /\ Blocked
    /\ timer2' = None2 /\ suicide' = TRUE
    /\ h' = HTimer(h)
    /\ obs' = Rec(obs, [k |-> "timer", t |-> timer2, saw |-> TRUE])
    /\ IF proc = "none"
       THEN \* in between consecutive invocations, never executed: self.kill(); kernelCompleted = True
            /\ cancel' = TRUE /\ kc' = TRUE /\ UNCHANGED <<procKilled, wakeAt, dev>>
       ELSE IF pc = "exec" /\ now < wakeAt
       THEN \* self.process.kill() on the running task: it dies within the second
            /\ procKilled' = TRUE /\ wakeAt' = now + 1 /\ UNCHANGED <<cancel, kc, dev>>
       ELSE IF pc = "exec"
       THEN \* the task is just finishing: nothing left to kill; Decide services _suicide
            UNCHANGED <<cancel, kc, procKilled, wakeAt, dev>>
       ELSE \* idle between two executions, self.process is the finished task
            \/ /\ cancel' = TRUE /\ kc' = TRUE                  \* specified: stop, as for a fresh engine
               /\ UNCHANGED <<procKilled, wakeAt, dev>>
            \/ /\ "stale-suicide" \in Deviations              \* the code: kill the stale process (no effect)
               /\ dev' = dev \cup {"stale-suicide"}
               /\ UNCHANGED <<cancel, kc, procKilled, wakeAt>>
    /\ UNCHANGED <<cfg, now, pc, retries, consume, pdone, lastL, lastF, begun, proc, procRc, isNew, pdwis, didExec, sched>>

(* somebody else calls engine.kill() *)
ExternalKill ==
    /\ AllowExternalKill /\ ~h.ext
    /\ Blocked \/ InWindow
    /\ cancel' = TRUE
    /\ h' = HExt(h)
    /\ sched' = Rec(sched, [a |-> "extkill", s |-> Stamp])
    /\ UNCHANGED <<cfg, now, pc, wakeAt, retries, suicide, kc, consume, pdone, timer2, lastL, lastF, begun, proc, procRc,
                   procKilled, isNew, pdwis, didExec, dev, obs>>

EnvStep == NotifyProducersFinished \/ NewOutput \/ KillDelay \/ ExternalKill

Next == MonitorStep \/ Tick \/ EnvStep

Spec == Init /\ [][Next]_vars /\ WF_vars(Next)

---------------------------------------------------------------------------
(* Properties of C13 on the model *)
NotifiedOnlyWhenFinished == P0_NotifiedOnlyWhenFinished(h)
NoExecutionBeforeOutput == P1_NoExecutionBeforeOutput(h)
FaultNeverCharged       == P4_FaultNeverCharged(h)
FinalOutputObserved     == P2_FinalOutputObserved(h, Alive, cfg.mode)
BoundedAttempts         == P3_BoundedAttempts(h, cfg)
StopsForAReason         == P3_StopsForAReason(h, Alive, retries)
StopsInTime             == P3_StopsInTime(h, Alive, cfg, now)
EventuallyStops         == h.done ~> ~Alive

TypeOK ==
    /\ pc \in {"idle", "poll", "begin", "fs1", "fs2", "window", "sample", "exec", "decide", "last", "dead"}
    /\ retries \in 0..cfg.retries0 /\ now >= -1 /\ wakeAt >= 0
    /\ proc \in {"none", "running", "stale"} /\ procRc \in {"-", "ok", "fail", "rexh", "killed"}
    /\ pdone = h.pdone /\ h.done = h.pdone /\ (h.fin = LiveSet(cfg.shape)) = pdone /\ (proc = "running") = (pc = "exec")
    /\ dev \subseteq Deviations
(* the engine's own bookkeeping agrees with the observer's history *)
Consistent ==
    /\ pc = "dead" => ~Alive
    /\ h.everL => lastL = h.lastL
    /\ consume => Consumable(h, cfg.mode)
    /\ suicide = h.fired

(* reachability witnesses (run as invariants that must FAIL: vacuity guard for the implications above) *)
W_StopsAfterSuccess == ~(pc = "dead" /\ h.succAfter /\ ~h.ext /\ ~h.fired)
W_StopsOutOfRetries == ~(pc = "dead" /\ ~h.succAfter /\ h.pdone /\ ~h.ext /\ ~h.fired /\ h.anyOut /\ cfg.retries0 > 0)
W_StopsByKillDelayIdle == ~(pc = "dead" /\ h.fired /\ h.everL /\ ~h.lastSaw)
W_ForcedRun == ~(pc = "sample" /\ cfg.mode = "repeatingProducer" /\ pdone /\ ~OutputSince(lastL) /\ isNew)
W_FaultedCheck == ~(pc = "dead" /\ h.nFault > 0 /\ h.everL)     \* a check raised, later ones saw output, the engine executed
W_PlumbingNotified == ~(pc = "dead" /\ cfg.shape = "two" /\ h.fin = {1, 2} /\ h.pdone /\ h.succAfter)   \* both producers, then the final run
W_WindowNotify == ~(pc = "window" /\ pdone /\ h.tN = now /\ h.lastOut2 = 2 * now)

(* the observation a harness can take from the real engine whenever the monitor thread is blocked or gone *)
Blk == CASE pc = "idle" -> "idle" [] pc \in {"poll", "fs1", "fs2"} -> "sleep" [] pc = "exec" -> "wait"
         [] pc = "window" -> "window" [] pc = "dead" -> "done" [] OTHER -> "running"
ObsNow == [now |-> now, blk |-> Blk, wake |-> IF pc \in {"idle", "poll", "exec", "fs1", "fs2"} THEN wakeAt ELSE now,
           alive |-> Alive, reason |-> ExitReason, retries |-> retries, cancel |-> cancel,
           suicide |-> suicide, consume |-> consume, pdone |-> pdone, proc |-> proc, rc |-> procRc, nl |-> h.nL,
           ll |-> lastL]

(* behaviour emission for the replay on the real engine: one JSON object per terminated behaviour *)
EmitBehaviour == (Record /\ pc = "dead") =>
    PrintT(ToJson([cfg |-> cfg, sched |-> sched, obs |-> obs, final |-> ObsNow, dev |-> dev]))
=============================================================================
