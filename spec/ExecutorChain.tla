---------------------------- MODULE ExecutorChain ----------------------------
(***************************************************************************)
(* Growth item G05: how the command line, the environment and the          *)
(* pre / main / post executor chain of a component's task are BUILT        *)
(* (experiment.model.executors: Command, Executor, AggregatedCommand,      *)
(* LocalExecutableChecker, ExecutionStack; data.Job.command;               *)
(* graph.ComponentSpecification.command / checkExecutable;                 *)
(* runtime.backends.LocalTaskGenerator) and RUN                            *)
(* (runtime.backend_interfaces.lsf.Task + LSFJobInfo: the only code of the *)
(* runtime that executes a chain; the local / docker / kubernetes          *)
(* generators receive `pre` and `post` and drop them).                     *)
(*                                                                         *)
(* Part 1 -- function specifications (Part = "resolve" / "render"): Init   *)
(* picks one case of a finite grid, the single action Build computes what  *)
(* the construction has to yield; every built state is emitted as JSON and *)
(* executed on the real classes by harness/checks/g05.py.                  *)
(*                                                                         *)
(*   resolve: an executable given as absolute / relative / bare name /     *)
(*     with a reference to a variable of the component environment, that   *)
(*     is a file, a link, missing, not executable; the component           *)
(*     environment has the directory in PATH, another PATH, or no PATH     *)
(*     (then the shell's default path applies); resolvePath true / false / *)
(*     unset; the operation: constructor only, updatePath, checkExecutable,*)
(*     updateAndCheckExecutable (= ComponentSpecification.checkExecutable),*)
(*     wrapping in an Executor (which resolves its target); and the        *)
(*     HISTORY: whether another command with the same executable and       *)
(*     environment was resolved before with the same / the other           *)
(*     resolvePath (LocalExecutableChecker keeps a process-wide cache).    *)
(*     Paths are sequences of segments over a symbolic file system; the    *)
(*     driver maps the roots "B" (package / instance dir) and "S" (system  *)
(*     bin dir) to real directories.                                       *)
(*                                                                         *)
(*   render: the argument string is a sequence of TOKENS (each a complete  *)
(*     shell word: literal, $VAR, ${VAR}x, undefined variable, value with  *)
(*     blanks, single / double / escaped-double quoted, escaped dollar, a  *)
(*     value that itself contains a reference, command substitution, a     *)
(*     backslash sequence, a value below the instance dir, an unbalanced   *)
(*     quote), expandArguments double-quote / none / junk,                 *)
(*     resolveShellSubstitutions, a rewrite rule.  Expected: the           *)
(*     commandLine string (pass 1: Command.resolveArgumentString feeds     *)
(*     "<arguments>" to echo in a shell whose environment holds the        *)
(*     component variables) and the argv the process receives when the     *)
(*     local back-end runs that line with shell=True (pass 2).  The        *)
(*     per-token tables are POSIX shell facts (the driver validates them   *)
(*     against /bin/sh itself); composition, modes, rejections are         *)
(*     specified here.                                                     *)
(*                                                                         *)
(* Part 2 -- state machine (Part = "run"): one task with NPre caller-given *)
(* pre commands and NPost post commands on an LSF-like batch system:       *)
(*   Submit      Task(...): compose the stack (caller's pre commands, then *)
(*               the task's own: rank file (MPI), affinity file, "started" *)
(*               notification (hybrid); caller's post, printenv, default   *)
(*               stage-out (hybrid)), render, lsb_submit                   *)
(*   StartPre / StartMain / StartPost   the batch system starts a phase    *)
(*   StepExit(rc)  the running caller-given step exits; the task's own     *)
(*               steps that follow run to their end within the same action *)
(*   MainEnd(o)  main exits / is signalled / hits the run limit / is       *)
(*               killed by its owner through the batch system              *)
(*   Kill        Task.kill() at any point;  Remove: the record vanishes    *)
(*               (bkill -r by someone else);  TransferDone (hybrid)        *)
(*   Poll        status / exitReason / returncode / isAlive                *)
(*                                                                         *)
(* NAMED DEVIATIONS (constants; TRUE = the code at HEAD, FALSE = the       *)
(* promise).  Each has a strong property that TLC refutes when the         *)
(* constant is TRUE (expected counterexample = witness) and proves when it *)
(* is FALSE.  Those marked (F) harm a user and are reported as findings.   *)
(*   CacheIgnoresResolve (F)  the executable cache is keyed by (executable,*)
(*        environment) only: resolvePath: false returns the link target    *)
(*        another component resolved before (HistoryIndependent)           *)
(*   BrokenYieldsEmpty (F)  an argument string the shell cannot parse is   *)
(*        silently replaced by the EMPTY string (BrokenRejected)           *)
(*   SemicolonJoin (F)  pre steps are joined with "; ": a failed step does *)
(*        not stop the chain and only the LAST step's exit code decides    *)
(*        whether main starts (NoStepAfterFailedPre, MainNeedsAllPre)      *)
(*   DeadBeforeTransfer (F)  isAlive() is False while the outputs of a     *)
(*        remote job are still in transit (DeadMeansOutputsBack)           *)
(*   DoubleExpansion    the rendered line is interpreted by a second shell:*)
(*        \$V, '$V', a value containing $X are expanded again / at all     *)
(*        (ExpandedOnce); by design of resolveShellSubstitutions           *)
(*   EchoEscapes        where /bin/sh's echo interprets backslash escapes  *)
(*        (dash) \t in an argument becomes a TAB (a property of the host,  *)
(*        detected by the driver)                                          *)
(*   NegativeCached     "not found" is cached too (covered by `prior`)     *)
(*   OldLsfDropsPre     LSF <= 9.12 has no pre-exec: pre steps never run   *)
(*        (PreStepsRun)                                                    *)
(*   DeadBeforePost     the batch system reports DONE / EXIT when main     *)
(*        ends: the task is "finished" while post steps still run          *)
(*        (DeadMeansChainOver)                                             *)
(***************************************************************************)
EXTENDS Integers, Sequences, FiniteSets, TLC, Json

CONSTANTS
  Part,                 \* "resolve" | "render" | "run"
  Emit,                 \* TRUE: print cases / behaviours as JSON
  CacheIgnoresResolve, BrokenYieldsEmpty, EchoEscapes, SemicolonJoin, DeadBeforeTransfer,
  ExeKinds, PathModes, Ops, Priors,            \* resolve grid
  Tokens, MaxTok, Modes, CmdLevel,             \* render grid; CmdLevel: Command-level cases (FALSE: component level, end to end)
  PreCounts, PostCounts,                       \* run: numbers of caller-given steps
  Mpis, Hybrids, LsfNews, Hostfiles, MaxOdd,   \* run: values of the flags mpi / hybrid / lsfnew / hostfile; at most MaxOdd of them off their default
  Codes, MainOutcomes,                         \* exit codes of caller-given steps; outcomes of main
  PollMode,                                    \* "always": a Poll after every action; "end": one Poll when the chain is over; "any"
  MaxKill, History                             \* History: keep the behaviour in `hist` (spec -> code); FALSE for model checking / traces

-----------------------------------------------------------------------------
(* PART 1a: executable resolution                                           *)

(* symbolic file system of the fixture *)
Tool == <<"B", "bin", "tool">>
Lnk == <<"B", "bin", "lnk">>
RealTool == <<"B", "real", "tool">>
NoExec == <<"B", "bin", "noexec">>
SysLs == <<"S", "ls">>
Files == {Tool, RealTool, NoExec, SysLs}
LinkTarget(p) == IF p = Lnk THEN RealTool ELSE p          \* os.path.realpath
Exists(p) == LinkTarget(p) \in Files
IsExec(p) == Exists(p) /\ LinkTarget(p) # NoExec

(* component environment *)
EnvD == <<"B", "bin">>                                   \* D=<base>/bin
PathDirs(pm) == CASE pm = "has" -> << <<"B", "bin">>, <<"S">> >>
                  [] pm = "other" -> << <<"B", "empty">> >>
                  [] OTHER -> << <<"S">> >>               \* no PATH at all: the shell's default path

(* the executable as the package author wrote it: abs(olute)?, segments; a segment may be a reference *)
Given(k) == CASE k = "abs" -> [abs |-> TRUE, segs |-> Tool]
              [] k = "abslnk" -> [abs |-> TRUE, segs |-> Lnk]
              [] k = "absmiss" -> [abs |-> TRUE, segs |-> <<"B", "bin", "nosuch">>]
              [] k = "absnox" -> [abs |-> TRUE, segs |-> NoExec]
              [] k = "rel" -> [abs |-> FALSE, segs |-> <<"bin", "tool">>]
              [] k = "reldot" -> [abs |-> FALSE, segs |-> <<".", "bin", "lnk">>]
              [] k = "relmiss" -> [abs |-> FALSE, segs |-> <<"bin", "nosuch">>]
              [] k = "bare" -> [abs |-> FALSE, segs |-> <<"tool">>]
              [] k = "barelnk" -> [abs |-> FALSE, segs |-> <<"lnk">>]
              [] k = "baremiss" -> [abs |-> FALSE, segs |-> <<"nosuch">>]
              [] k = "baresys" -> [abs |-> FALSE, segs |-> <<"ls">>]
              [] k = "envref" -> [abs |-> FALSE, segs |-> <<"$D", "tool">>]
              [] k = "envbrace" -> [abs |-> FALSE, segs |-> <<"${D}", "lnk">>]
              [] k = "envundef" -> [abs |-> FALSE, segs |-> <<"$U", "tool">>]
              [] OTHER -> [abs |-> FALSE, segs |-> <<"$T">>]               \* "envbare": T=tool

(* Command.__init__: references to variables of the environment are expanded (unknown ones stay), a relative path   *)
(* (one with a directory part) is joined to basePath and normalised, a bare name is left alone                         *)
RECURSIVE DropDots(_)
DropDots(s) == IF s = <<>> THEN <<>> ELSE IF Head(s) = "." THEN DropDots(Tail(s)) ELSE <<Head(s)>> \o DropDots(Tail(s))
Expand(g) == LET h == Head(g.segs) IN
             IF h \in {"$D", "${D}"} THEN [abs |-> TRUE, segs |-> EnvD \o Tail(g.segs)]
             ELSE IF h = "$T" THEN [abs |-> FALSE, segs |-> <<"tool">> \o Tail(g.segs)]
             ELSE g
Ctor(k) == LET e == Expand(Given(k)) IN
           IF e.abs THEN [bare |-> FALSE, segs |-> e.segs]
           ELSE IF Len(e.segs) = 1 THEN [bare |-> TRUE, segs |-> e.segs]
           ELSE [bare |-> FALSE, segs |-> <<"B">> \o DropDots(e.segs)]

NoPath == <<>>
RECURSIVE WhichIn(_, _)
WhichIn(name, dirs) == IF dirs = <<>> THEN NoPath
                       ELSE IF IsExec(Head(dirs) \o <<name>>) THEN Head(dirs) \o <<name>> ELSE WhichIn(name, Tail(dirs))

(* LocalExecutableChecker.findExecutable without its cache: a bare name is looked up in the PATH of the component        *)
(* environment, anything else is taken as it is; a found path is followed to its target iff resolvePath is true        *)
Find(k, pm, rp) == LET c == Ctor(k)
                       f == IF c.bare THEN WhichIn(c.segs[1], PathDirs(pm)) ELSE c.segs
                   IN IF f = NoPath THEN NoPath ELSE IF rp = "true" THEN LinkTarget(f) ELSE f

OtherRP(rp) == IF rp = "true" THEN "false" ELSE "true"
(* ... and with it: the first query for (executable, environment) decides *)
FindCached(k, pm, rp, prior) == IF prior = "other" /\ CacheIgnoresResolve THEN Find(k, pm, OtherRP(rp)) ELSE Find(k, pm, rp)

Reject == [ok |-> FALSE, exe |-> <<>>, bare |-> FALSE, rp |-> "-"]
Accept(p, b, rp) == [ok |-> TRUE, exe |-> p, bare |-> b, rp |-> rp]
Checked(p, b, rp) == IF ~b /\ IsExec(p) THEN Accept(p, b, rp) ELSE Reject

Resolve(k, pm, rp, op, prior) ==
  LET c == Ctor(k)
      f == FindCached(k, pm, rp, prior)
  IN CASE op = "ctor" -> Accept(c.segs, c.bare, rp)
       [] op = "check" -> Checked(c.segs, c.bare, rp)                                   \* never searches
       [] op \in {"updatePath", "wrap"} ->                                              \* never rejects; a found path is final
            IF f = NoPath THEN Accept(c.segs, c.bare, rp) ELSE Accept(f, FALSE, IF rp = "true" THEN "false" ELSE rp)
       [] OTHER -> IF f = NoPath THEN Reject ELSE Checked(f, FALSE, rp)                  \* updateAndCheck

-----------------------------------------------------------------------------
(* PART 1b: rendering the command line                                      *)

(* root of the instance directory in rendered strings: a rewrite rule replaces it *)
Root(rw) == IF rw THEN "<R>" ELSE "<B>"

(* what the author wrote *)
Raw(t) == CASE t = "plain" -> "plain"        [] t = "var" -> "$V"            [] t = "brace" -> "${V}x"
            [] t = "undef" -> "$U"           [] t = "sp" -> "$SP"            [] t = "sqvar" -> "'$V'"
            [] t = "sqsp" -> "'$SP'"         [] t = "dqsp" -> "\"$SP\""      [] t = "edqsp" -> "\\\"$SP\\\""
            [] t = "esc" -> "\\$V"           [] t = "ref" -> "$REF"          [] t = "sub" -> "$(echo sub)"
            [] t = "semi" -> "';'"           [] t = "star" -> "'*'"          [] t = "bsl" -> "a\\tb"
            [] t = "base" -> "$BASE/f"       [] OTHER -> "x\"y"              \* "unbal"
Broken(t) == t = "unbal"
(* pass 1: the token inside "...", parameter expansion / command substitution / backslash rules of double quotes;       *)
(* V=val, SP="a  b", REF="$V/x", BASE=<root>/data, U unset                                                              *)
P1(t, rw) == CASE t = "plain" -> "plain"     [] t = "var" -> "val"           [] t = "brace" -> "valx"
            [] t = "undef" -> ""             [] t = "sp" -> "a  b"           [] t = "sqvar" -> "'val'"
            [] t = "sqsp" -> "'a  b'"        [] t = "dqsp" -> "a b"          [] t = "edqsp" -> "\"a  b\""
            [] t = "esc" -> "$V"             [] t = "ref" -> "$V/x"          [] t = "sub" -> "sub"
            [] t = "semi" -> "';'"           [] t = "star" -> "'*'"
            [] t = "bsl" -> IF EchoEscapes THEN "a<TAB>b" ELSE "a\\tb"
            [] t = "base" -> Root(rw) \o "/data/f"
            [] OTHER -> ""
(* the words a shell makes of the pass-1 text (pass 2; the process environment holds the component variables) *)
W2(t, rw) == CASE t = "plain" -> <<"plain">> [] t = "var" -> <<"val">>       [] t = "brace" -> <<"valx">>
            [] t = "undef" -> <<>>           [] t = "sp" -> <<"a", "b">>     [] t = "sqvar" -> <<"val">>
            [] t = "sqsp" -> <<"a  b">>      [] t = "dqsp" -> <<"a", "b">>   [] t = "edqsp" -> <<"a  b">>
            [] t = "esc" -> <<"val">>        [] t = "ref" -> <<"val/x">>     [] t = "sub" -> <<"sub">>
            [] t = "semi" -> <<";">>         [] t = "star" -> <<"*">>
            [] t = "bsl" -> IF EchoEscapes THEN <<"a", "b">> ELSE <<"atb">>
            [] t = "base" -> <<Root(rw) \o "/data/f">>
            [] OTHER -> <<>>
(* the words a shell makes of the raw text: the single interpretation a reader of the package expects *)
W1(t) == CASE t = "plain" -> <<"plain">>     [] t = "var" -> <<"val">>       [] t = "brace" -> <<"valx">>
            [] t = "undef" -> <<>>           [] t = "sp" -> <<"a", "b">>     [] t = "sqvar" -> <<"$V">>
            [] t = "sqsp" -> <<"$SP">>       [] t = "dqsp" -> <<"a  b">>     [] t = "edqsp" -> <<"\"a", "b\"">>
            [] t = "esc" -> <<"$V">>         [] t = "ref" -> <<"$V/x">>      [] t = "sub" -> <<"sub">>
            [] t = "semi" -> <<";">>         [] t = "star" -> <<"*">>        [] t = "bsl" -> <<"atb">>
            [] t = "base" -> <<"<B>/data/f">>
            [] OTHER -> <<>>

RECURSIVE JoinStr(_, _)
JoinStr(s, sep) == IF s = <<>> THEN "" ELSE IF Len(s) = 1 THEN s[1] ELSE s[1] \o sep \o JoinStr(Tail(s), sep)
RECURSIVE Flat(_)
Flat(s) == IF s = <<>> THEN <<>> ELSE Head(s) \o Flat(Tail(s))
RECURSIVE SeqsUpTo(_, _)
SeqsUpTo(S, n) == IF n = 0 THEN {<<>>} ELSE LET R == SeqsUpTo(S, n - 1) IN R \cup {Append(r, x) : r \in {q \in R : Len(q) = n - 1}, x \in S}

AnyBroken(toks) == \E i \in 1..Len(toks) : Broken(toks[i])
RawArgs(toks) == JoinStr([i \in 1..Len(toks) |-> Raw(toks[i])], " ")
Expands(mode, rss, interp) == rss /\ mode = "double-quote" /\ ~interp /\ TRUE

(* Command.commandLine.  mode junk: the constructor refuses.  Not expanding: executable + " " + raw (a rewrite rule acts on   *)
(* the text as written).  Expanding: pass 1 of every token; an argument string the shell cannot parse has no rendering:      *)
(* the promise is a rejection, the code returns the EMPTY string.  Blank arguments are not sent through a shell.             *)
(* An Executor wrapped around the command (mpirun, docker ... in front of it): its command line is its own executable, its own   *)
(* arguments -- expanded with ITS OWN variables (V=exec) -- and then the target's command line; its environment is its own         *)
(* overlaid by the target's (the target wins: V=val, E=e); a rewrite rule reaches both.                                            *)
Wrapped(wrap, rw, line) == IF wrap THEN Root(rw) \o "/bin/tool -x exec " \o line ELSE line
WrapEnv == [V |-> "val", E |-> "e"]

Render(toks, mode, rss, rw, interp, wrap) ==
  LET exe == Root(rw) \o "/bin/dump" IN
  IF mode \notin {"double-quote", "none"} THEN [ok |-> FALSE, line |-> "", argv |-> <<>>, ran |-> FALSE, once |-> <<>>]
  ELSE LET exp == Expands(mode, rss, interp)
           args == IF ~exp THEN RawArgs(toks)
                   ELSE IF AnyBroken(toks) THEN "" ELSE JoinStr([i \in 1..Len(toks) |-> P1(toks[i], rw)], " ")
           ok == ~(exp /\ AnyBroken(toks) /\ ~BrokenYieldsEmpty)
           \* pass 2 = the local back-end: /bin/sh -c line.  A line the shell cannot parse never starts the executable.
           ran == ok /\ ~(~exp /\ AnyBroken(toks))
           argv == IF ~ran THEN <<>>
                   ELSE IF ~exp THEN Flat([i \in 1..Len(toks) |-> W1(toks[i])])
                   ELSE IF AnyBroken(toks) THEN <<>> ELSE Flat([i \in 1..Len(toks) |-> W2(toks[i], rw)])
       IN [ok |-> ok, line |-> Wrapped(wrap, rw, exe \o " " \o args), argv |-> argv, ran |-> ran,
           once |-> Flat([i \in 1..Len(toks) |-> W1(toks[i])])]

-----------------------------------------------------------------------------
(* PART 2: running the chain                                                *)

StepName(kind, i) == IF kind = "pre" THEN <<"pre1", "pre2", "pre3">>[i] ELSE <<"post1", "post2", "post3">>[i]
UserPre(sc) == [i \in 1..sc.npre |-> StepName("pre", i)]
UserPost(sc) == [i \in 1..sc.npost |-> StepName("post", i)]
SysPre(sc) == (IF sc.mpi THEN <<"rank">> ELSE <<>>) \o <<"affinity">> \o (IF sc.hybrid THEN <<"notify">> ELSE <<>>)
SysPost(sc) == <<"printenv">> \o (IF sc.hybrid THEN <<"stageout">> ELSE <<>>)
PreSteps(sc) == UserPre(sc) \o SysPre(sc)
PostSteps(sc) == UserPost(sc) \o SysPost(sc)
HasPre(sc) == sc.lsfnew                      \* the task always has its own affinity step; LSF <= 9.12 has no pre-exec option
(* pre steps: "; " (the code) or " && " (the promise: a failed step ends the chain).  Post steps are always "; ": every one of them   *)
(* runs whatever the others did (stage-out, bookkeeping), the last one decides PDONE / PERR                                         *)
JoinSep == IF SemicolonJoin THEN "; " ELSE " && "
Semi(ph) == SemicolonJoin \/ ph = "post"

(* the task's own steps are not scripted: what they do in the world of the driver *)
SysRc(sc, s) == IF s = "affinity" /\ ~sc.hostfile THEN 1 ELSE 0
SysFile(s) == CASE s = "rank" -> "djobs.txt" [] s = "affinity" -> "affinity.txt" [] s = "notify" -> "started.txt"
                [] s = "printenv" -> "environment.txt" [] OTHER -> "-"
(* running the steps ss after a step that exited with rc0: -> <<exit code of the phase, files written>>          *)
(* "; ": every step runs, the last one decides.  "&&": the first failure stops the chain and decides.              *)
RECURSIVE RunSys(_, _, _, _, _)
RunSys(sc, ss, rc0, fs, semi) ==
  IF ss = <<>> THEN <<rc0, fs>>
  ELSE IF ~semi /\ rc0 # 0 THEN <<rc0, fs>>
  ELSE RunSys(sc, Tail(ss), SysRc(sc, Head(ss)), fs \cup ({SysFile(Head(ss))} \ {"-"}), semi)

VARIABLES
  case, res,          \* part 1: the case and what Build computed (Todo before)
  sc,                 \* part 2: scenario [npre, npost, mpi, hybrid, lsfnew, hostfile]
  phase,              \* new, pend, pre, prepared, main, mainover, post, over, gone
  cur,                \* the caller-given step that is running (blocked until the driver lets it exit); "-" none
  started,            \* caller-given steps and main in the order they started
  rcs,                \* their exit codes so far: sequence of <<name, rc>>
  files,              \* what the task's own steps wrote into the working directory
  job,                \* the batch system's record: [stat, post, rc, sig, info]
  xfer,               \* outputs of a remote job: "na" (local), "pending", "done"
  terminated,         \* Task.kill() was called
  nkill,
  last,               \* the final triple the task has frozen (<<>>: none yet)
  obs,                \* answer of the last Poll
  needPoll,
  hist

vars == <<case, res, sc, phase, cur, started, rcs, files, job, xfer, terminated, nkill, last, obs, needPoll, hist>>
p1vars == <<case, res>>
p2vars == <<sc, phase, cur, started, rcs, files, job, xfer, terminated, nkill, last, obs, needPoll, hist>>

Todo == [todo |-> TRUE]
NoJob == [stat |-> "-", post |-> "-", rc |-> 0, sig |-> 0, info |-> "none"]
NoObs == [state |-> "-", reason |-> "-", rc |-> -1, alive |-> TRUE]
IdleRun == /\ sc = [npre |-> 0, npost |-> 0, mpi |-> FALSE, hybrid |-> FALSE, lsfnew |-> TRUE, hostfile |-> TRUE]
           /\ phase = "new" /\ cur = "-" /\ started = <<>> /\ rcs = <<>> /\ files = {} /\ job = NoJob /\ xfer = "na"
           /\ terminated = FALSE /\ nkill = 0 /\ last = <<>> /\ obs = NoObs /\ needPoll = FALSE /\ hist = <<>>

ResolveCases == [k : ExeKinds, pm : PathModes, rp : {"true", "false", "none"}, op : Ops, prior : Priors]
RenderCases == [toks : SeqsUpTo(Tokens, MaxTok), mode : Modes, rss : BOOLEAN, rw : BOOLEAN, interp : BOOLEAN, wrap : BOOLEAN]
(* component level: Job.command always resolves shell substitutions, no rewrite rule (local back-end) *)
(* at most one unbalanced token per argument string: two of them balance each other and turn what stands between them inside out *)
RenderOK(c) == /\ Cardinality({i \in 1..Len(c.toks) : Broken(c.toks[i])}) <= 1
               /\ IF CmdLevel THEN ~c.interp /\ (c.wrap => Len(c.toks) <= 1) ELSE c.rss /\ ~c.rw /\ ~c.wrap /\ c.mode # "junk"

Odd(m, h, l, f) == (IF m THEN 1 ELSE 0) + (IF h THEN 1 ELSE 0) + (IF l THEN 0 ELSE 1) + (IF f THEN 0 ELSE 1)
Init ==
  \/ /\ Part = "resolve" /\ case \in ResolveCases /\ res = Todo /\ IdleRun
  \/ /\ Part = "render" /\ case \in {c \in RenderCases : RenderOK(c)} /\ res = Todo /\ IdleRun
  \/ /\ Part = "run" /\ case = "-" /\ res = Todo
     /\ \E np \in PreCounts, nq \in PostCounts, m \in Mpis, h \in Hybrids, l \in LsfNews, f \in Hostfiles :
          /\ Odd(m, h, l, f) <= MaxOdd
          /\ sc = [npre |-> np, npost |-> nq, mpi |-> m, hybrid |-> h, lsfnew |-> l, hostfile |-> f]
     /\ phase = "new" /\ cur = "-" /\ started = <<>> /\ rcs = <<>> /\ files = {} /\ job = NoJob /\ xfer = "na"
     /\ terminated = FALSE /\ nkill = 0 /\ last = <<>> /\ obs = NoObs /\ needPoll = FALSE /\ hist = <<>>

Build == /\ Part \in {"resolve", "render"} /\ res = Todo
         /\ res' = IF Part = "resolve" THEN Resolve(case.k, case.pm, case.rp, case.op, case.prior)
                   ELSE Render(case.toks, case.mode, case.rss, case.rw, case.interp, case.wrap)
         /\ UNCHANGED <<case, p2vars>>

(* ---- what the task reports ---- *)
ReasonOf(j) == CASE j.info = "PRE_EXEC_FAIL" -> "SubmissionFailed"
                 [] j.info = "RUNLIMIT" -> "ResourceExhausted"
                 [] j.info = "OWNER" -> "Cancelled"
                 [] j.info = "EXTSIG" -> "Killed"
                 [] j.rc = 127 -> "SubmissionFailed"            \* LSF's "could not start the job"
                 [] j.rc = 0 -> "Success"
                 [] j.rc < 128 -> "KnownIssue"
                 [] OTHER -> "UnknownIssue"
FromJob == CASE job.stat = "PEND" -> <<"waiting_on_resource", "none", -1>>
             [] job.stat = "RUN" -> <<"running", "none", -1>>
             [] job.stat = "DONE" -> <<IF xfer = "pending" THEN "waiting_on_output_data_transfer" ELSE "finished", "Success", 0>>
             [] OTHER -> <<IF xfer = "pending" THEN "waiting_on_output_data_transfer" ELSE "failed", ReasonOf(job), job.rc>>
Report == IF last # <<>> THEN last
          ELSE IF phase = "gone" THEN <<"failed", IF terminated THEN "Killed" ELSE "UnknownIssue", 1>>
          ELSE FromJob
Final(r) == r[1] \in {"failed", "finished"}
AliveOf(r) == IF DeadBeforeTransfer THEN r[2] = "none" ELSE (r[2] = "none" \/ r[1] = "waiting_on_output_data_transfer")
ObsOf(r) == [state |-> r[1], reason |-> r[2], rc |-> r[3], alive |-> AliveOf(r)]

Note(a, x) == IF History THEN Append(hist, [a |-> a, x |-> x, phase |-> phase', cur |-> cur', started |-> started', files |-> files', xfer |-> xfer']) ELSE hist
EnvOK == ~needPoll
After == IF PollMode = "always" THEN TRUE ELSE FALSE

Submit == /\ Part = "run" /\ phase = "new" /\ EnvOK
          /\ phase' = "pend" /\ job' = [NoJob EXCEPT !.stat = "PEND"]
          /\ needPoll' = After
          /\ UNCHANGED <<case, res, sc, cur, started, rcs, files, xfer, terminated, nkill, last, obs>>
          /\ hist' = Note("Submit", 0)

(* the end of the pre-exec command line: main may start, or the job exits *)
PreEnd(prc, fs) == /\ files' = fs
                   /\ cur' = "-"
                   /\ IF prc = 0 THEN phase' = "prepared" /\ job' = job
                      ELSE phase' = "over" /\ job' = [job EXCEPT !.stat = "EXIT", !.rc = prc, !.info = "PRE_EXEC_FAIL"]
PostEnd(qrc, fs) == /\ files' = fs /\ cur' = "-" /\ phase' = "over"
                    /\ job' = [job EXCEPT !.post = IF qrc = 0 THEN "PDONE" ELSE "PERR"]

StartPre == /\ Part = "run" /\ phase = "pend" /\ HasPre(sc) /\ EnvOK
            /\ IF sc.npre > 0
               THEN /\ phase' = "pre" /\ cur' = "pre1" /\ started' = Append(started, "pre1")
                    /\ job' = [job EXCEPT !.stat = "RUN"] /\ files' = files
               ELSE /\ LET r == RunSys(sc, SysPre(sc), 0, files, Semi("pre")) IN
                        /\ files' = r[2] /\ cur' = "-"
                        /\ IF r[1] = 0 THEN phase' = "prepared" /\ job' = [job EXCEPT !.stat = "RUN"]
                           ELSE phase' = "over" /\ job' = [job EXCEPT !.stat = "EXIT", !.rc = r[1], !.info = "PRE_EXEC_FAIL"]
                    /\ started' = started
            /\ needPoll' = After
            /\ UNCHANGED <<case, res, sc, rcs, xfer, terminated, nkill, last, obs>>
            /\ hist' = Note("StartPre", 0)

StartMain == /\ Part = "run" /\ EnvOK
             /\ \/ phase = "pend" /\ ~HasPre(sc)
                \/ phase = "prepared"
             /\ phase' = "main" /\ cur' = "main" /\ started' = Append(started, "main")
             /\ job' = [job EXCEPT !.stat = "RUN"]
             /\ needPoll' = After
             /\ UNCHANGED <<case, res, sc, rcs, files, xfer, terminated, nkill, last, obs>>
             /\ hist' = Note("StartMain", 0)

Index(name) == CASE name \in {"pre1", "post1"} -> 1 [] name \in {"pre2", "post2"} -> 2 [] OTHER -> 3

StepExit(rc) ==
  /\ Part = "run" /\ phase \in {"pre", "post"} /\ cur # "-" /\ EnvOK
  /\ rcs' = Append(rcs, <<cur, rc>>)
  /\ LET i == Index(cur)
         n == IF phase = "pre" THEN sc.npre ELSE sc.npost
         goOn == i < n /\ (Semi(phase) \/ rc = 0)
     IN IF goOn
        THEN /\ cur' = StepName(phase, i + 1) /\ started' = Append(started, StepName(phase, i + 1))
             /\ UNCHANGED <<phase, job, files>>
        ELSE /\ started' = started
             /\ LET tail == IF i < n THEN <<>> ELSE IF phase = "pre" THEN SysPre(sc) ELSE SysPost(sc)
                    \* with "&&" a failure before the last caller-given step skips everything that follows
                    r == IF i < n THEN <<rc, files>> ELSE RunSys(sc, tail, rc, files, Semi(phase))
                IN IF phase = "pre" THEN PreEnd(r[1], r[2]) ELSE PostEnd(r[1], r[2])
  /\ needPoll' = After
  /\ UNCHANGED <<case, res, sc, xfer, terminated, nkill, last, obs>>
  /\ hist' = Note("StepExit", rc)

MainRecord(o) == CASE o = "rc0" -> [stat |-> "DONE", post |-> "-", rc |-> 0, sig |-> 0, info |-> "none"]
                   [] o = "rc3" -> [stat |-> "EXIT", post |-> "-", rc |-> 3, sig |-> 0, info |-> "none"]
                   [] o = "rc127" -> [stat |-> "EXIT", post |-> "-", rc |-> 127, sig |-> 0, info |-> "none"]
                   [] o = "sig9" -> [stat |-> "EXIT", post |-> "-", rc |-> 0, sig |-> 9, info |-> "EXTSIG"]
                   [] o = "runlimit" -> [stat |-> "EXIT", post |-> "-", rc |-> 140, sig |-> 0, info |-> "RUNLIMIT"]
                   [] OTHER -> [stat |-> "EXIT", post |-> "-", rc |-> 130, sig |-> 0, info |-> "OWNER"]

MainEnd(o) == /\ Part = "run" /\ phase = "main" /\ cur = "main" /\ EnvOK
              /\ phase' = "mainover" /\ cur' = "-" /\ job' = MainRecord(o)
              /\ rcs' = Append(rcs, <<"main", MainRecord(o).rc>>)
              /\ xfer' = IF sc.hybrid THEN "pending" ELSE "na"         \* a hybrid job ran on the remote cluster
              /\ needPoll' = After
              /\ UNCHANGED <<case, res, sc, started, files, terminated, nkill, last, obs>>
              /\ hist' = Note("MainEnd", o)

StartPost == /\ Part = "run" /\ phase = "mainover" /\ EnvOK
             /\ IF sc.npost > 0
                THEN phase' = "post" /\ cur' = "post1" /\ started' = Append(started, "post1") /\ UNCHANGED <<job, files>>
                ELSE started' = started /\ LET r == RunSys(sc, SysPost(sc), 0, files, TRUE) IN PostEnd(r[1], r[2])
             /\ needPoll' = After
             /\ UNCHANGED <<case, res, sc, rcs, xfer, terminated, nkill, last, obs>>
             /\ hist' = Note("StartPost", 0)

TransferDone == /\ Part = "run" /\ xfer = "pending" /\ phase \in {"mainover", "post", "over"} /\ EnvOK
                /\ xfer' = "done"
                /\ needPoll' = After
                /\ UNCHANGED <<case, res, sc, phase, cur, started, rcs, files, job, terminated, nkill, last, obs>>
                /\ hist' = Note("TransferDone", 0)

Kill == /\ Part = "run" /\ phase # "new" /\ nkill < MaxKill /\ EnvOK
        /\ terminated' = TRUE /\ nkill' = nkill + 1
        /\ phase' = "gone" /\ cur' = "-"
        /\ needPoll' = After
        /\ UNCHANGED <<case, res, sc, started, rcs, files, job, xfer, last, obs>>
        /\ hist' = Note("Kill", 0)

Remove == /\ Part = "run" /\ phase \notin {"new", "gone"} /\ EnvOK
          /\ phase' = "gone" /\ cur' = "-"
          /\ needPoll' = After
          /\ UNCHANGED <<case, res, sc, started, rcs, files, job, xfer, terminated, nkill, last, obs>>
          /\ hist' = Note("Remove", 0)

Poll == /\ Part = "run" /\ phase # "new"
        /\ CASE PollMode = "always" -> needPoll
             [] PollMode = "end" -> phase \in {"over", "gone"} /\ obs = NoObs
             [] OTHER -> TRUE
        /\ obs' = ObsOf(Report)
        /\ last' = IF Final(Report) THEN Report ELSE last
        /\ needPoll' = FALSE
        /\ hist' = IF History THEN Append(hist, [a |-> "Poll", x |-> ObsOf(Report)]) ELSE hist
        /\ UNCHANGED <<case, res, sc, phase, cur, started, rcs, files, job, xfer, terminated, nkill>>

Next == \/ Build
        \/ Submit \/ StartPre \/ StartMain \/ StartPost \/ TransferDone \/ Kill \/ Remove \/ Poll
        \/ \E rc \in Codes : StepExit(rc)
        \/ \E o \in MainOutcomes : MainEnd(o)

Spec == Init /\ [][Next]_vars

-----------------------------------------------------------------------------
(* PROPERTIES, part 1                                                       *)
Built == "ok" \in DOMAIN res

(* a search never turns a usable executable into something else than a file that exists and can be executed *)
CheckedIsExecutable == (Part = "resolve" /\ Built /\ case.op \in {"check", "updateAndCheck"} /\ res.ok) => (~res.bare /\ IsExec(res.exe))
UpdatePathNeverRejects == (Part = "resolve" /\ Built /\ case.op \in {"ctor", "updatePath", "wrap"}) => res.ok
(* resolvePath false / unset: the author wants the path as given (a link stays a link) *)
LinkKeptUnlessAsked == (Part = "resolve" /\ Built /\ res.ok /\ case.rp # "true" /\ case.k \in {"abslnk", "reldot", "envbrace", "barelnk"})
                          => res.exe = Lnk \/ res.bare
(* the result is a function of the command alone (strong: refuted while CacheIgnoresResolve) *)
HistoryIndependent == (Part = "resolve" /\ Built) => res = Resolve(case.k, case.pm, case.rp, case.op, "none")
(* not expanding means verbatim *)
VerbatimWhenNotExpanding == (Part = "render" /\ Built /\ res.ok /\ ~Expands(case.mode, case.rss, case.interp))
                               => res.line = Wrapped(case.wrap, case.rw, Root(case.rw) \o "/bin/dump " \o RawArgs(case.toks))
JunkModeRejected == (Part = "render" /\ Built /\ case.mode \notin {"double-quote", "none"}) => ~res.ok
(* strong: an argument string that cannot be rendered is refused (refuted while BrokenYieldsEmpty) *)
BrokenRejected == (Part = "render" /\ Built /\ Expands(case.mode, case.rss, case.interp) /\ AnyBroken(case.toks)) => ~res.ok
(* strong: the process receives the words a single shell interpretation of the arguments gives (refuted: DoubleExpansion) *)
ExpandedOnce == (Part = "render" /\ Built /\ res.ran) => res.argv = res.once
(* ... which does hold when nothing is expanded beforehand *)
ExpandedOnceWhenNone == (Part = "render" /\ Built /\ res.ran /\ ~Expands(case.mode, case.rss, case.interp)) => res.argv = res.once

-----------------------------------------------------------------------------
(* PROPERTIES, part 2                                                       *)
Running == Part = "run"
StepsOf(kind) == {started[i] : i \in {j \in 1..Len(started) : started[j] \in (IF kind = "pre" THEN {"pre1", "pre2", "pre3"} ELSE {"post1", "post2", "post3"})}}
Pos(name) == CHOOSE i \in 1..Len(started) : started[i] = name
Did(name) == \E i \in 1..Len(started) : started[i] = name
RcOf(name) == LET i == CHOOSE i \in 1..Len(rcs) : rcs[i][1] = name IN rcs[i][2]
Exited(name) == \E i \in 1..Len(rcs) : rcs[i][1] = name

TypeOK == Running =>
    /\ phase \in {"new", "pend", "pre", "prepared", "main", "mainover", "post", "over", "gone"}
    /\ cur \in {"-", "main", "pre1", "pre2", "pre3", "post1", "post2", "post3"}
    /\ (cur # "-" => phase \in {"pre", "main", "post"})
(* pre steps in the caller's order, then main, then post steps in the caller's order; nothing twice *)
Ordered == Running =>
    /\ \A i, j \in 1..Len(started) : i < j => started[i] # started[j]
    /\ \A i \in 1..sc.npre : Did(StepName("pre", i)) => (\A k \in 1..(i - 1) : Did(StepName("pre", k)) /\ Pos(StepName("pre", k)) < Pos(StepName("pre", i)))
    /\ \A i \in 1..sc.npost : Did(StepName("post", i)) => (\A k \in 1..(i - 1) : Did(StepName("post", k)) /\ Pos(StepName("post", k)) < Pos(StepName("post", i)))
    /\ Did("main") => \A s \in StepsOf("pre") : Pos(s) < Pos("main")
    /\ \A s \in StepsOf("post") : Did("main") /\ Pos("main") < Pos(s)
(* one step at a time: a step starts only after its predecessor exited *)
OneAtATime == Running =>
    /\ (cur # "-" => cur = started[Len(started)])
    /\ \A i \in 1..(Len(started) - 1) : Exited(started[i])
(* main starts only after the pre-exec command line exited with 0 (the batch system's rule) ... *)
MainAfterPrePhase == (Running /\ Did("main") /\ HasPre(sc)) => "affinity.txt" \in files
(* ... post only after main ended *)
PostAfterMain == (Running /\ (StepsOf("post") # {} \/ "environment.txt" \in files)) => Exited("main")
(* strong (refuted while SemicolonJoin): nothing runs after a failed pre step, main needs every pre step to succeed *)
NoStepAfterFailedPre == Running => \A i \in 1..Len(rcs) : (rcs[i][1] \in {"pre1", "pre2", "pre3"} /\ rcs[i][2] # 0)
                                       => (started[Len(started)] = rcs[i][1] /\ "affinity.txt" \notin files)
MainNeedsAllPre == (Running /\ Did("main")) => \A i \in 1..Len(rcs) : (rcs[i][1] \in {"pre1", "pre2", "pre3"} => rcs[i][2] = 0)
(* strong (refuted for lsfnew = FALSE): when main started, every caller-given pre step ran *)
PreStepsRun == (Running /\ Did("main")) => \A i \in 1..sc.npre : Did(StepName("pre", i))
(* what is reported once the job ended by itself is main's result; post steps never change it; a failed pre-exec is a *)
(* failed submission                                                                                                    *)
Polled == obs # NoObs
Now == ObsOf(Report)                       \* what a Poll would answer in this state
ReportsMain == (Running /\ phase \in {"mainover", "post", "over"} /\ Exited("main") /\ last # <<>>)
                  => (last[2] = ReasonOf(job) \/ (job.stat = "DONE" /\ last[2] = "Success")) /\ last[3] = job.rc
PreFailureIsSubmissionFailure == (Running /\ phase = "over" /\ ~Did("main"))
                  => Now.reason = "SubmissionFailed" /\ Now.state = "failed" /\ ~Now.alive
AliveIffNoReason == (Running /\ phase # "new") => /\ (Now.alive <=> (Now.reason = "none" \/ (~DeadBeforeTransfer /\ Now.state = "waiting_on_output_data_transfer")))
                               /\ (Polled => (obs.alive <=> (obs.reason = "none" \/ (~DeadBeforeTransfer /\ obs.state = "waiting_on_output_data_transfer"))))
KilledIsDead == (Running /\ terminated) => (~Now.alive /\ (last = <<>> => Now.reason = "Killed"))
(* strong (refuted while DeadBeforeTransfer): a task that is not alive has its outputs back *)
DeadMeansOutputsBack == (Running /\ phase \notin {"new", "gone"} /\ ~Now.alive) => xfer # "pending"
(* strong (refuted: DeadBeforePost): a task that is not alive has no step left to run *)
DeadMeansChainOver == (Running /\ phase # "new" /\ ~Now.alive) => phase \in {"over", "gone"}

(* action properties *)
FinalIsFrozen == [][(Running /\ last # <<>>) => last' = last]_vars
DeadStaysDead == [][(Running /\ Polled /\ ~obs.alive /\ obs' # obs) => ~obs'.alive]_vars
NothingStartsAfterGone == [][(Running /\ phase = "gone") => (started' = started /\ files' = files /\ phase' = "gone")]_vars
StartedOnlyGrows == [][Running => (Len(started') >= Len(started) /\ SubSeq(started', 1, Len(started)) = started)]_vars

(* reachability witnesses (vacuity guard): expected to be violated *)
WitnessMaskedFailure == ~(Running /\ Did("main") /\ \E i \in 1..Len(rcs) : rcs[i][1] = "pre1" /\ rcs[i][2] # 0)
WitnessKilledAfterFinish == ~(Running /\ terminated /\ last # <<>> /\ last[2] = "Success")
WitnessKillOverridesSuccess == ~(Running /\ terminated /\ job.stat = "DONE" /\ Polled /\ obs.reason = "Killed")

-----------------------------------------------------------------------------
(* emission                                                                 *)
EmitBuilt == (Emit /\ Part \in {"resolve", "render"} /\ Built) => PrintT(ToJson([case |-> case, res |-> res, wenv |-> WrapEnv]))
ChainEnded == Running /\ phase \in {"over", "gone"} /\ ~needPoll /\ (PollMode = "end" => Polled)
Expect == [pre |-> PreSteps(sc), post |-> PostSteps(sc), hasPre |-> HasPre(sc), sep |-> JoinSep, postsep |-> "; "]
EmitRun == (Emit /\ ChainEnded) => PrintT(ToJson([sc |-> sc, expect |-> Expect, hist |-> hist,
                                                  end |-> [phase |-> phase, started |-> started, files |-> files]]))
=============================================================================
