--------------------------- MODULE SchedulerTrace ---------------------------
(***************************************************************************)
(* Trace validation for Scheduler.tla: every run of the REAL Controller    *)
(* recorded by harness/ctl.py (one record per atomic step: the event, its  *)
(* argument, and the projection of the real state after the step) must be *)
(* a behaviour of the specification.  Each record is matched by            *)
(*     IsEvent(ev) /\ SpecAction(arg) /\ vars' = logged state,             *)
(* so every invariant / action property of Scheduler.tla is evaluated on   *)
(* the logged REAL states.  Many runs are validated in one TLC invocation  *)
(* (tid picks the run); the furthest step matched per run is kept in a TLC *)
(* register and the POSTCONDITION reports the runs that were not matched   *)
(* to their end.                                                           *)
(***************************************************************************)
EXTENDS Scheduler, SchedTraceData

(* SchedTraceData (generated per validation batch) defines                                                      *)
(*   Traces   sequence of [shape, outs, scan, start, memo, conds, steps]; steps: sequence of step tuples (see Matches) *)

VARIABLES tid, l
tvars == <<vars, tid, l>>

T == Traces[tid].steps

(* a step record is the tuple <<ev, c, cs, exitR, nrun, nrestart, nresub, fin, killreq, notified, done, staged, stop,  *)
(* stage, phase, verdict, killed, memoized, sleepReq, asleep, postponed, nsleep, order, live, curiter, phdone>>           *)
(* (positional: record fields named like the variables would only trigger SANY warnings)                                  *)
Ev(e) == e[1]
Arg(e) == e[2]
Matches(e) ==
  /\ cs' = e[3] /\ exitR' = e[4] /\ nrun' = e[5] /\ nrestart' = e[6] /\ nresub' = e[7]
  /\ fin' = e[8] /\ killreq' = e[9] /\ notified' = e[10]
  /\ done' = e[11] /\ staged' = e[12] /\ stop' = e[13] /\ stage' = e[14] /\ phase' = e[15]
  /\ verdict' = e[16]
  /\ killed' = e[17] /\ memoized' = e[18] /\ sleepReq' = e[19] /\ asleep' = e[20] /\ postponed' = e[21] /\ nsleep' = e[22]
  /\ order' = e[23] /\ live' = e[24] /\ curiter' = e[25] /\ phdone' = e[26]

(* the run's constants come from the record: shape, fault sequences, scan order, starting stage, memoization answers *)
TraceInit ==
  /\ tid \in 1..Len(Traces)
  /\ l = 0
  /\ sid = Traces[tid].shape /\ oa = Traces[tid].outs /\ order = Traces[tid].scan
  /\ start = Traces[tid].start /\ memo = Traces[tid].memo /\ condans = Traces[tid].conds
  /\ cs = [c \in 1..Shapes[sid].n |-> IF c \in Skipped(sid, start) THEN "finished" ELSE "idle"]
  /\ exitR = [c \in 1..Shapes[sid].n |-> "none"]
  /\ nrun = [c \in 1..Shapes[sid].n |-> 0]
  /\ nrestart = [c \in 1..Shapes[sid].n |-> 0]
  /\ nresub = [c \in 1..Shapes[sid].n |-> 0]
  /\ fin = [c \in 1..Shapes[sid].n |-> FALSE]
  /\ target = [c \in 1..Shapes[sid].n |-> "none"]
  /\ killreq = [c \in 1..Shapes[sid].n |-> FALSE]
  /\ notified = [c \in 1..Shapes[sid].n |-> FALSE]
  /\ done = Skipped(sid, start) /\ staged = {} /\ stop = FALSE /\ stage = start /\ phase = "running"
  /\ verdict = SubSeq(SkipVerdicts, 1, start)
  /\ killed = FALSE /\ memoized = {}
  /\ sleepReq = FALSE /\ asleep = FALSE /\ postponed = <<>> /\ nsleep = 0
  /\ pm = [c \in 1..Shapes[sid].n |-> FALSE]
  /\ live = InitLive(sid) /\ curiter = 0 /\ phdone = FALSE

(* what an rx hop that is no controller callback may do to the projected state *)
Internal == \/ UNCHANGED vars
            \/ \E c \in 1..MaxN : SetFinal(c)
            \/ \E c \in 1..MaxN : NotifyProducers(c)

Step(e) ==
  CASE Ev(e) = "Pass" -> (Pass \/ UNCHANGED vars)
    [] Ev(e) = "TaskExit" -> TaskExit(Arg(e))
    [] Ev(e) = "KilledExit" -> KilledExit(Arg(e))
    [] Ev(e) = "PostMortemCheck" -> (PostMortemCheck(Arg(e)) \/ LatePostMortem(Arg(e)) \/ LatePostMortemRepaired(Arg(e)))
    \* a recorded finishedCheck / wake_up is matched by the current code's behaviour or by the repaired one (FcEffectX)
    [] Ev(e) = "FinishedCheck" -> (FinishedCheckF(Arg(e), e[23], FALSE) \/ FinishedCheckF(Arg(e), e[23], TRUE))
    [] Ev(e) = "Internal" -> Internal
    [] Ev(e) = "StageEnd" -> StageEnd
    [] Ev(e) = "Cleanup" -> Cleanup
    [] Ev(e) = "ExternalKill" -> ExternalKill
    [] Ev(e) = "Sleep" -> SleepCall
    [] Ev(e) = "WakeUp" -> (WakeUpF(e[23], FALSE) \/ WakeUpF(e[23], TRUE))
    [] OTHER -> FALSE

TraceNext ==
  /\ l < Len(T)
  /\ l' = l + 1
  /\ tid' = tid
  /\ Step(T[l + 1])
  /\ Matches(T[l + 1])

TraceSpec == TraceInit /\ [][TraceNext]_tvars

(* furthest matched step per run *)
Record == TLCSet(tid, l)
AllAccepted ==
  LET bad == {t \in 1..Len(Traces) : TLCGet(t) # Len(Traces[t].steps)} IN
  \/ bad = {}
  \/ PrintT(<<"REJECTED", [t \in bad |-> TLCGet(t)]>>) /\ FALSE

(* action properties of Scheduler.tla restated over tvars (same formulas, evaluated on logged real states) *)
TLaunchSafeModuloKnown == [][\A c \in Comp : (nrun[c] = 0 /\ nrun'[c] = 1) => (LaunchOk(c) \/ KnownWindow(c))]_tvars
TLaunchSafe == [][\A c \in Comp : (nrun[c] = 0 /\ nrun'[c] = 1) => LaunchOk(c)]_tvars
TFinalAbsorbing == [][\A c \in Comp : cs[c] \in Final => (cs'[c] = cs[c] \/ CondRetag(c))]_tvars
TLoopConsumerWaits == [][\A c \in Comp : (ConsumesLoop(c) /\ nrun[c] = 0 /\ nrun'[c] = 1) => LoopEnded]_tvars
TNoRunAfterFinal == [][\A c \in Comp : cs[c] \in Final => nrun'[c] = nrun[c]]_tvars
TNoLaunchAfterStop == [][(killed \/ stop) => \A c \in Comp : nrun'[c] = nrun[c]]_tvars
TNoLaunchWhileAsleep == [][(sleepReq \/ asleep') => \A c \in Comp : ~(nrun[c] = 0 /\ nrun'[c] = 1)]_tvars
TNoStageInWhileAsleep == [][sleepReq => \A c \in staged' \ staged : fin'[c] /\ nrun'[c] = 0]_tvars
=============================================================================
