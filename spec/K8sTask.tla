------------------------------ MODULE K8sTask ------------------------------
(***************************************************************************)
(* G06 (growth item): the Kubernetes task of the runtime,                  *)
(* experiment.runtime.backend_interfaces.k8s.NativeScheduledTask.          *)
(*                                                                         *)
(* Part "run": a state machine.  The ENVIRONMENT is a Kubernetes cluster   *)
(* (the Job object, its pods, and the API server that may refuse, time     *)
(* out or be unreachable); the SYSTEM is one task object: its construction *)
(* (job submission), the ticks of its rx polling pipeline                  *)
(* (take_while(isAlive) . map(_getTaskState) -> SetLastReportedState ->    *)
(* task_completed), kill() / terminate() / ^C inside wait(), and the       *)
(* queries isAlive / status / returncode / exitReason / wait.              *)
(* A step of the task is one call into the real code that runs to its end  *)
(* on the caller's stack (the manual emission after a final state and the  *)
(* garbage collection nest inside it); what the API server does during the *)
(* step is a parameter of the action: the script                           *)
(*   f = [from, kind, midn, midcl]                                         *)
(* HTTP requests of the step are numbered 1, 2, ..; requests >= from fail  *)
(* with `kind` (blip kinds: only request number `from` fails); right after *)
(* request `midn` the cluster moves on to `midcl` (it changes between two  *)
(* requests of one poll).  The operators below are the code, statement for *)
(* statement at the granularity of HTTP requests; every request is         *)
(* recorded in `calls`, so the replay on the real class compares the exact *)
(* request sequence (incl. the retries of _retry_on_restapi_timeout).      *)
(* Time is counted in units of 5 s: polling interval 20 (the harness uses  *)
(* 100 s), retry sleep 2 (random.randint(10, 15) pinned to 10), sleep      *)
(* between log attempts 1, API-outage limit 60 (5 minutes).                *)
(*                                                                         *)
(* Part "map": function specification of _getTaskState over the grid of    *)
(* job / pod status fields the code distinguishes, and of isAlive /        *)
(* returncode / exitReason over (lastReportedState, terminated, stdout).   *)
(*                                                                         *)
(* NAMED DEVIATIONS (behaviour of the code that breaks a promise one would *)
(* expect; each has a TLC witness produced by harness/checks/g06.py):      *)
(*  KillIsTerminate     kill() is terminate(): never "Killed" by request   *)
(*  OomIsKilled         a container killed for memory (exit 137) reports   *)
(*                      Killed, not ResourceExhausted                      *)
(*  RunningIsActive     without job conditions the state is job.active,    *)
(*                      not the pod phase (Pending pod -> "running");      *)
(*                      the state may go running -> waiting_on_resource    *)
(*  PollDependentReason an evicted / deadline-exceeded pod without         *)
(*                      container status is ResourceExhausted only if an   *)
(*                      earlier poll saw it run, else SubmissionFailed     *)
(*  ConnOutageThreePolls an unreachable API server (connection errors)     *)
(*                      fails the task after 3 polls, not after 5 minutes  *)
(*  TwoPodsThreePolls   a job with two pods for 3 polls -> SystemIssue;    *)
(*                      the job is NOT deleted                             *)
(*  GivesUpWithoutDelete any SystemIssue verdict leaves the job running    *)
(* FINDINGS (a user is harmed; keys in g06.py, repro scripts in            *)
(* out/proposed_fixes/, files G06_...):                                     *)
(*  NodesCallIsFatal    one failed request in _get_nodes() -> task failed  *)
(*  KillLost            terminate() gives up when a request fails (or two  *)
(*                      pods exist) and nobody retries: the job runs on;   *)
(*                      a connection error escapes from kill()             *)
(*  CompleteButPodGone  job Complete + pod object removed: the task waits  *)
(*                      for ever (or reports Cancelled)                    *)
(*  NonTerminalFirst    conditions [SuccessCriteriaMet|FailureTarget,      *)
(*                      Complete|Failed] with equal time stamps: state None*)
(*                      for ever                                           *)
(*  GcErrorFlipsVerdict garbage collection hitting a connection error      *)
(*                      turns finished/Success into failed/UnknownIssue    *)
(* Each finding has a constant (NodesFatal, KillForgotten,                 *)
(* DeleteConnEscapes, CompleteNeedsPod, FirstConditionWins): TRUE = the    *)
(* code as found, FALSE = the repaired code (the diffs in                  *)
(* out/proposed_fixes); g06.py sets them from G06_... environment          *)
(* variables and expects the strong property to hold when FALSE.           *)
(***************************************************************************)
EXTENDS Integers, Sequences, FiniteSets, TLC, Json

CONSTANTS
  Part,          \* "run" | "map" | "exit"
  Emit,          \* print every transition (run) / every case (map, exit) as JSON
  Gcs, Archives, Caches,        \* task configuration: garbage_collect, archive_objects (sets of strings), cacheImage (set of booleans)
  CreateKinds,   \* how the job creation request goes: subset of {"ok", "e403", "e504", "conn", "blip504", "blipconn"}
  Kinds,         \* failure kinds of a script: subset of {"e503", "e504", "conn", "blip503", "blip504", "blipconn"}
  Froms,         \* positions a failure may start at
  KillFroms,     \* the same for kill steps
  Mids,          \* request numbers after which the cluster may move inside a tick: subset of {1, 2}
  MaxTicks, MaxKills, MaxBad, MaxMid, MaxPeek,
  Outcomes,      \* terminal pod situations the cluster may reach (names, see PodNamed)
  Pendings,      \* subset of {"creating", "errpull"}
  MaxDel,        \* external pod deletions
  JobDel,        \* BOOLEAN: somebody else may delete the job
  PodGC,         \* BOOLEAN: the pod object of a concluded job may be removed
  TwoPhase,      \* BOOLEAN: job controllers that list a non-terminal condition first (same time stamp)
  Lost,          \* BOOLEAN: node lost (pod phase Unknown, then replaced)
  Idle,          \* BOOLEAN: the job shows active = 0 without a condition for a while after its pod ended
  Interrupts,    \* BOOLEAN: ^C inside wait()
  MapSlice,      \* which part of the grid of part "map"
  \* the findings: TRUE = the code as found, FALSE = the repaired code (out/proposed_fixes/G06_*.diff)
  NodesFatal,          \* a failed request in _get_nodes() fails the task
  DeleteConnEscapes,   \* a connection error at the deletion escapes from terminate()
  KillForgotten,       \* terminate() gives up (request failed / two pods) and nobody retries
  CompleteNeedsPod,    \* a Complete job is only believed when its pod object can still be listed
  FirstConditionWins   \* of several job conditions with equal time stamps the first listed one decides

ASSUME Part \in {"run", "map", "exit"}

NoSince == 0 - 1000
Interval == 20
RetrySleep == 2
LogSleep == 1
OutageLimit == 60
PullBudget == 5

Reasons == {"Success", "KnownIssue", "SystemIssue", "SubmissionFailed", "UnknownIssue", "Killed", "Cancelled", "ResourceExhausted"}
T(st, rs, rc) == [k |-> "val", st |-> st, rs |-> rs, rc |-> rc]
NoneX == [k |-> "none", st |-> "-", rs |-> "none", rc |-> 0 - 1]
ExcX == [k |-> "exc", st |-> "-", rs |-> "none", rc |-> 0 - 1]
Waiting == T("waiting_on_resource", "none", 0 - 1)
Running == T("running", "none", 0 - 1)
Failed(rs) == T("failed", rs, 0 - 1)

(***************************************************************************)
(* pods: the status fields _get_last_pod_state distinguishes               *)
(***************************************************************************)
Pod(ph, prs, cs, code, trs, sig, tst) == [ph |-> ph, prs |-> prs, cs |-> cs, code |-> code, trs |-> trs, sig |-> sig, tst |-> tst]
PUnsched == Pod("Pending", "none", "nocs", 0, "none", 0, FALSE)
PCreating == Pod("Pending", "none", "waiting", 0, "none", 0, FALSE)
PErrPull == Pod("Pending", "none", "errpull", 0, "none", 0, FALSE)
PRunning == Pod("Running", "none", "running", 0, "none", 0, FALSE)
PLost == Pod("Unknown", "NodeLost", "running", 0, "none", 0, FALSE)
PodNamed(o) ==
  CASE o = "ok" -> Pod("Succeeded", "none", "term", 0, "Completed", 0, TRUE)
    [] o = "err" -> Pod("Failed", "none", "term", 1, "Error", 0, TRUE)
    [] o = "oom" -> Pod("Failed", "none", "term", 137, "OOMKilled", 0, TRUE)
    [] o = "term143" -> Pod("Failed", "none", "term", 143, "Error", 0, TRUE)
    [] o = "sig15" -> Pod("Failed", "none", "term", 143, "Error", 15, TRUE)
    [] o = "deadline" -> Pod("Failed", "DeadlineExceeded", "term", 137, "Error", 0, TRUE)
    [] o = "deadline0" -> Pod("Failed", "DeadlineExceeded", "nocs", 0, "none", 0, FALSE)
    [] o = "evicted" -> Pod("Failed", "Evicted", "nocs", 0, "none", 0, FALSE)
    [] o = "evicted137" -> Pod("Failed", "Evicted", "term", 137, "Error", 0, TRUE)
    [] o = "nostart" -> Pod("Failed", "none", "term", 128, "ContainerCannotRun", 0, FALSE)
OutcomePods == {PodNamed(o) : o \in Outcomes}
TerminalPod(p) == p.ph \in {"Succeeded", "Failed"}
EarlyOutcomes == {"deadline0", "evicted"}      \* can happen before the container starts
StartOutcomes == {"nostart"}                   \* happen when the container is started
RunOutcomes == {"ok", "err", "oom", "term143", "sig15", "deadline", "evicted", "evicted137"}

(***************************************************************************)
(* variables                                                               *)
(***************************************************************************)
VARIABLES
  cl,          \* the cluster: [job, pods, nd, ok, ran]   job: "none" "new" "active" "idle" "complete" "failed" "other" "otherok" "gone"
  created,     \* the task object exists
  conf,        \* [gc, archive, cache]
  last,        \* lastReportedState
  started,     \* _epoch_started is not None
  pull,        \* _remaining_image_pull_errors
  errs,        \* _consecutive_get_state_errors
  age,         \* (start of the last tick) - api_unavailable_since, NoSince when None
  off,         \* now - (start of the last tick)
  cached,      \* hasCachedImage
  closed,      \* stdout closed
  done,        \* the polling pipeline completed (task_completed ran)
  terminated,  \* self.terminated
  called,      \* _terminate_called_when is not None
  req,         \* (repaired code only) a kill was requested
  archived,    \* how many times the objects were archived
  ndel,        \* successful delete requests
  why,         \* ghost: what made the state final
  obs,         \* [calls, raised] of the last step
  cnt,         \* [ticks, kills, bad, mids, peeks]
  case, res    \* parts "map" / "exit"

\* what the public API answers: isAlive(), returncode, exitReason (incl. its fall-back branch), status
Final(st) == st \in {"finished", "failed"}
ExitReasonOf(l, alive, term) ==
  IF alive THEN "none"
  ELSE IF l.rs # "none" THEN l.rs
  ELSE IF l.rc # 0 - 1 THEN (IF l.rc = 0 THEN "Success" ELSE IF l.rc >= 128 THEN "SystemIssue" ELSE "KnownIssue")
  ELSE IF term THEN "Cancelled"
  ELSE IF l.st = "finished" THEN "Success" ELSE "SubmissionFailed"
IsAlive == ~(Final(last.st) /\ closed)
RetCode == IF IsAlive THEN 0 - 1 ELSE last.rc
ExitReason == ExitReasonOf(last, IsAlive, terminated)
Pub == [alive |-> IsAlive, rc |-> RetCode, reason |-> ExitReason, status |-> last.st]

tvars == <<created, conf, last, started, pull, errs, age, off, cached, closed, done, terminated, called, req, archived, ndel, why>>
vars == <<cl, tvars, obs, cnt, case, res>>

TS == [cl |-> [job |-> cl.job, pods |-> cl.pods], created |-> created, conf |-> conf, last |-> last, started |-> started, pull |-> pull, errs |-> errs,
       age |-> age, off |-> off, cached |-> cached, closed |-> closed, done |-> done, terminated |-> terminated, called |-> called,
       req |-> req, archived |-> archived, g |-> [nd |-> cl.nd, ok |-> cl.ok, ran |-> cl.ran, ndel |-> ndel, why |-> why], cnt |-> cnt,
       pub |-> Pub]

NoScript == [from |-> 99, kind |-> "ok", midn |-> 0, midcl |-> [job |-> "none", pods |-> <<>>, nd |-> 0, ok |-> FALSE, ran |-> FALSE]]
FailScript(k, kind) == [NoScript EXCEPT !.from = k, !.kind = kind]
MidScript(n, c) == [NoScript EXCEPT !.midn = n, !.midcl = c]

(***************************************************************************)
(* the API client                                                          *)
(***************************************************************************)
Blip(kind) == kind \in {"blip503", "blip504", "blipconn"}
Failing(f, n) == IF Blip(f.kind) THEN n = f.from ELSE n >= f.from
Retryable(kind) == kind \in {"e504", "conn", "blip504", "blipconn"}
IsConn(kind) == kind \in {"conn", "blipconn"}
Bang(name) == CASE name = "read_job" -> "read_job!" [] name = "list_pods" -> "list_pods!" [] name = "list_events" -> "list_events!"
                [] name = "read_log" -> "read_log!" [] name = "delete_job" -> "delete_job!" [] name = "create_job" -> "create_job!"
Gone == {"none", "gone"}

\* one HTTP request; view = the cluster the answer is computed from
Req(c, name) ==
  LET n1 == c.n + 1
      bad == Failing(c.f, n1)
      c1 == [c EXCEPT !.n = n1, !.calls = Append(@, IF bad THEN Bang(name) ELSE name)]
      c2 == IF c.f.midn = n1 THEN [c1 EXCEPT !.cl = c.f.midcl] ELSE c1
  IN [c |-> c2, bad |-> bad, view |-> c.cl]

\* _retry_on_restapi_timeout(request)
RECURSIVE Try(_, _, _)
Try(c, name, left) ==
  LET r == Req(c, name) IN
  IF ~r.bad THEN [c |-> r.c, r |-> "ok", view |-> r.view]
  ELSE IF Retryable(c.f.kind) /\ left > 0 THEN Try([r.c EXCEPT !.off = @ + RetrySleep], name, left - 1)
  ELSE [c |-> r.c, r |-> IF IsConn(c.f.kind) THEN "conn" ELSE "api", view |-> r.view]

\* _unavailable_api_to_status
Unavail(c) ==
  IF c.age = NoSince THEN [c |-> [c EXCEPT !.age = 0 - c.off], x |-> c.last, out |-> FALSE]
  ELSE IF c.age + c.off > OutageLimit THEN [c |-> c, x |-> Failed("SystemIssue"), out |-> TRUE]
  ELSE [c |-> c, x |-> c.last, out |-> FALSE]

WithWhy(c, w) == IF c.w = "none" THEN [c EXCEPT !.w = w] ELSE c

\* _get_last_pod_state, one pod listed
PodEval(c, p) ==
  IF p.cs = "two" THEN [c |-> c, x |-> NoneX]
  ELSE
  LET cannot == ~c.started /\ p.cs = "errpull"
      newstart == ~c.started /\ (p.cs = "running" \/ (p.cs = "term" /\ p.tst))
      c1 == IF newstart THEN Req([c EXCEPT !.started = TRUE], "list_events").c ELSE c
      c2 == IF p.ph # "Unknown" THEN [c1 EXCEPT !.age = NoSince] ELSE c1
      sig == IF p.code = 137 THEN 9 ELSE p.sig
      resource == p.prs \in {"Evicted", "DeadlineExceeded"}
  IN
  IF cannot THEN LET c3 == [c2 EXCEPT !.pull = @ - 1] IN
                 IF c3.pull < 0 THEN [c |-> WithWhy(c3, "pull"), x |-> Failed("SubmissionFailed")] ELSE [c |-> c3, x |-> Waiting]
  ELSE IF p.ph = "Pending" THEN [c |-> c2, x |-> Waiting]
  ELSE IF p.ph = "Running" THEN [c |-> c2, x |-> Running]
  ELSE IF p.ph = "Succeeded" THEN [c |-> c2, x |-> IF p.cs = "term" /\ p.trs = "OOMKilled" THEN Failed("ResourceExhausted") ELSE T("finished", "Success", 0)]
  ELSE IF p.ph = "Failed" /\ p.cs # "term" THEN [c |-> c2, x |-> Failed(IF resource THEN "ResourceExhausted" ELSE "SubmissionFailed")]
  ELSE IF p.ph = "Failed" THEN [c |-> c2, x |-> T("failed", IF resource THEN "ResourceExhausted" ELSE IF sig \in {2, 15} THEN "Cancelled"
                                                   ELSE IF sig = 9 THEN "Killed" ELSE "KnownIssue", p.code)]
  ELSE IF p.ph = "Unknown" THEN LET u == Unavail(c2) IN [c |-> IF u.out THEN WithWhy(u.c, "outage") ELSE u.c, x |-> u.x]
  ELSE [c |-> c2, x |-> Waiting]

\* _get_last_pod_state
GLP(c) ==
  LET t == Try(c, "list_pods", 3) IN
  IF t.r = "conn" THEN [c |-> t.c, x |-> ExcX, found |-> TRUE]
  ELSE IF t.r = "api" THEN LET u == Unavail(t.c) IN [c |-> IF u.out THEN WithWhy(u.c, "outage") ELSE u.c, x |-> u.x, found |-> TRUE]
  ELSE LET ps == t.view.pods IN
    IF Len(ps) > 1 THEN [c |-> t.c, x |-> NoneX, found |-> TRUE]
    ELSE IF Len(ps) = 1 THEN LET e == PodEval(t.c, ps[1]) IN [c |-> e.c, x |-> e.x, found |-> TRUE]
    ELSE [c |-> t.c, x |-> IF t.c.last.rs # "none" THEN t.c.last ELSE IF t.c.started THEN Failed("Cancelled") ELSE Waiting, found |-> FALSE]

\* _getTaskState (through the wrapper that turns an exception into None)
GTS(c) ==
  IF Final(c.last.st) THEN [c |-> c, x |-> c.last]
  ELSE LET t == Try(c, "read_job", 3) IN
    IF t.r = "conn" THEN [c |-> t.c, x |-> NoneX]
    ELSE IF t.r = "api" THEN LET u == Unavail(t.c) IN [c |-> IF u.out THEN WithWhy(u.c, "outage") ELSE u.c, x |-> u.x]
    ELSE IF t.view.job \in Gone THEN [c |-> WithWhy(t.c, "notfound"), x |-> Failed("Cancelled")]
    ELSE LET g == GLP([t.c EXCEPT !.age = NoSince])
             jv == IF FirstConditionWins THEN t.view.job ELSE IF t.view.job = "other" THEN "failed" ELSE IF t.view.job = "otherok" THEN "complete" ELSE t.view.job
             cw == WithWhy(g.c, "cluster")
         IN
      IF g.x.k # "val" THEN [c |-> g.c, x |-> NoneX]
      ELSE IF g.c.pull < 0 THEN [c |-> WithWhy(g.c, "pull"), x |-> Failed("SubmissionFailed")]
      ELSE IF jv = "complete" /\ ~CompleteNeedsPod /\ ~g.found THEN [c |-> cw, x |-> T("finished", "Success", 0)]
      ELSE IF jv = "complete" THEN [c |-> IF Final(g.x.st) THEN cw ELSE g.c, x |-> g.x]
      ELSE IF jv = "failed" THEN (IF ~g.c.started THEN [c |-> cw, x |-> Failed("SubmissionFailed")]
                                  ELSE IF g.x.rs # "none" THEN [c |-> cw, x |-> g.x] ELSE [c |-> g.c, x |-> Running])
      ELSE IF jv \in {"other", "otherok"} THEN [c |-> g.c, x |-> T("None", "none", 0 - 1)]
      ELSE IF jv = "active" THEN [c |-> g.c, x |-> Running]
      ELSE [c |-> g.c, x |-> Waiting]

\* _fetch_master_pod_for_job inside the second retry loop of _fetch_stdout
RECURSIVE FetchPod(_, _)
FetchPod(c, left) ==
  LET t == Try(c, "list_pods", 3) IN
  IF t.r = "ok" THEN [c |-> t.c, r |-> IF Len(t.view.pods) < 1 THEN "other" ELSE "ok"]
  ELSE IF Retryable(c.f.kind) /\ left > 0 THEN FetchPod([t.c EXCEPT !.off = @ + RetrySleep], left - 1)
  ELSE [c |-> t.c, r |-> IF t.r = "conn" THEN "other" ELSE "api"]

\* _fetch_stdout: "ok" | "api" (ApiException) | "other" (any other exception)
FetchStdout(c) ==
  LET fp == FetchPod(c, 3) IN
  IF fp.r # "ok" THEN fp
  ELSE LET r == Req(fp.c, "read_log") IN [c |-> r.c, r |-> IF ~r.bad THEN "ok" ELSE IF IsConn(c.f.kind) THEN "other" ELSE "api"]

\* the log loop of SetLastReportedState
RECURSIVE LogsR(_, _, _)
LogsR(c, rs, left) ==
  IF left = 0 \/ c.terminated \/ rs \in {"Cancelled", "SubmissionFailed"} THEN c
  ELSE LET fs == FetchStdout(c) IN
    IF fs.r = "ok" THEN fs.c
    ELSE IF fs.r = "other" /\ fs.c.called THEN fs.c
    ELSE LogsR(IF left > 1 THEN [fs.c EXCEPT !.off = @ + LogSleep] ELSE fs.c, rs, left - 1)

Alive(c) == ~(Final(c.last.st) /\ c.closed)
Pred(rule, st) == CASE rule = "all" -> TRUE [] rule = "none" -> FALSE [] rule = "successful" -> st = "finished" [] OTHER -> st = "failed"

RECURSIVE EmitR(_), CommitR(_, _), TerminateR(_), CompletedR(_)

\* an emission of merge(interval, _manual_emit) going through take_while(isAlive) . map(_get_task_state) to the subscriber
EmitR(c) ==
  IF c.done THEN c
  ELSE IF ~Alive(c) THEN CompletedR([c EXCEPT !.done = TRUE])
  ELSE LET c0 == IF ~KillForgotten /\ c.req /\ ~c.terminated /\ ~c.interm /\ ~Final(c.last.st) THEN TerminateR(c) ELSE c   \* repaired: the poll retries the deletion
           g == GTS(c0)
       IN IF c0.done THEN c0 ELSE CommitR(g.c, g.x)

\* SetLastReportedState
CommitR(c, x) ==
  LET c0 == IF x.k = "val" THEN [c EXCEPT !.errs = 0] ELSE [c EXCEPT !.errs = @ + 1] IN
  IF x.k # "val" /\ c0.errs < 3 THEN c0
  ELSE
  LET v == IF x.k = "val" THEN x ELSE Failed("SystemIssue")
      c1 == [IF x.k = "val" THEN c0 ELSE WithWhy(c0, "errs3") EXCEPT !.last = v]
      needNodes == v.st \in {"finished", "running"} /\ ~c1.cached /\ c1.cache
      tn == Try(c1, "list_pods", 3)
  IN
  IF needNodes /\ tn.r # "ok" /\ NodesFatal THEN [tn.c EXCEPT !.w = "nodes", !.last = Failed(IF tn.r = "api" THEN "SystemIssue" ELSE "UnknownIssue")]
  ELSE LET c2 == IF needNodes THEN (IF tn.r = "ok" THEN [tn.c EXCEPT !.cached = TRUE] ELSE tn.c) ELSE c1 IN
    IF ~Final(v.st) THEN c2
    ELSE LET c3 == LogsR(c2, v.rs, 3)
             c5 == EmitR([c3 EXCEPT !.closed = TRUE])
         IN IF c5.exc # "none" THEN [c5 EXCEPT !.exc = "none", !.last = Failed("UnknownIssue"), !.w = "gcexc"] ELSE c5

\* task_completed
CompletedR(c) ==
  LET c1 == IF Pred(c.archive, c.last.st) THEN [c EXCEPT !.archived = @ + 1] ELSE c IN
  IF Pred(c.gc, c.last.st) THEN TerminateR(c1) ELSE c1

\* terminate() = kill()
TerminateOld(c) ==
  LET c1 == IF ~c.started THEN [GLP(c).c EXCEPT !.w = c.w] ELSE c
      c2 == IF c1.started /\ ~Final(c1.last.st) THEN FetchStdout(c1).c ELSE c1
      g0 == GLP(c2)
      g == [c |-> [g0.c EXCEPT !.w = c.w], x |-> g0.x]       \* the verdict this call computes is thrown away
  IN IF g.x.k = "none" THEN g.c
     ELSE IF g.x.k = "exc" THEN EmitR(g.c)
     ELSE LET d == Try([g.c EXCEPT !.called = TRUE], "delete_job", 3) IN
       IF d.r = "conn" /\ DeleteConnEscapes THEN [d.c EXCEPT !.exc = "conn"]
       ELSE IF d.r = "ok" /\ d.view.job \notin Gone
         THEN EmitR([d.c EXCEPT !.terminated = TRUE, !.cl.job = "gone", !.ndel = @ + 1])
       ELSE EmitR([d.c EXCEPT !.called = FALSE])
\* repaired: the request is remembered, nothing makes it give up before the deletion, the polls retry a failed deletion
TerminateNew(c) ==
  IF c.interm THEN [c EXCEPT !.req = TRUE]
  ELSE
  LET c0 == [c EXCEPT !.req = TRUE, !.interm = TRUE]
      c1 == IF ~c0.started THEN [GLP(c0).c EXCEPT !.w = c.w] ELSE c0
      c2 == IF c1.started /\ ~Final(c1.last.st) THEN FetchStdout(c1).c ELSE c1
      g == [GLP(c2).c EXCEPT !.w = c.w]
      d == Try([g EXCEPT !.called = TRUE], "delete_job", 3)
      e == IF d.r = "ok" /\ d.view.job \notin Gone THEN EmitR([d.c EXCEPT !.terminated = TRUE, !.cl.job = "gone", !.ndel = @ + 1])
           ELSE EmitR([d.c EXCEPT !.called = FALSE])
  IN [e EXCEPT !.interm = FALSE]
TerminateR(c) == IF c.terminated THEN c ELSE IF KillForgotten THEN TerminateOld(c) ELSE TerminateNew(c)

(***************************************************************************)
(* part "run": the state machine                                           *)
(***************************************************************************)
Ctx(f) == [f |-> f, n |-> 0, calls |-> <<>>, exc |-> "none", cl |-> cl, last |-> last, started |-> started, pull |-> pull, errs |-> errs,
           age |-> age, off |-> off, cached |-> cached, closed |-> closed, done |-> done, terminated |-> terminated, called |-> called,
           req |-> req, interm |-> FALSE, archived |-> archived, ndel |-> ndel, w |-> why, gc |-> conf.gc, archive |-> conf.archive, cache |-> conf.cache]

Assign(c, raised) ==
  /\ cl' = c.cl /\ last' = c.last /\ started' = c.started /\ pull' = c.pull /\ errs' = c.errs /\ age' = c.age /\ off' = c.off
  /\ cached' = c.cached /\ closed' = c.closed /\ done' = c.done /\ terminated' = c.terminated /\ called' = c.called /\ req' = c.req
  /\ archived' = c.archived /\ ndel' = c.ndel /\ why' = IF Final(c.last.st) THEN c.w ELSE "none"
  /\ obs' = [calls |-> c.calls, raised |-> raised]

IsBad(f) == f.from < 99
Scripts(froms) == {NoScript} \cup (IF cnt.bad < MaxBad THEN {FailScript(k, kind) : k \in froms, kind \in Kinds} ELSE {})

InitCl == [job |-> "none", pods |-> <<>>, nd |-> 0, ok |-> FALSE, ran |-> FALSE]
InitRun ==
  /\ cl = InitCl /\ created = FALSE /\ conf = [gc |-> "none", archive |-> "none", cache |-> TRUE]
  /\ last = T("initialising", "none", 0 - 1) /\ started = FALSE /\ pull = PullBudget /\ errs = 0 /\ age = NoSince /\ off = 0
  /\ cached = FALSE /\ closed = FALSE /\ done = FALSE /\ terminated = FALSE /\ called = FALSE /\ req = FALSE /\ archived = 0 /\ ndel = 0 /\ why = "none"
  /\ obs = [calls |-> <<>>, raised |-> "none"] /\ cnt = [ticks |-> 0, kills |-> 0, bad |-> 0, mids |-> 0, peeks |-> 0]
  /\ case = <<>> /\ res = <<>>

CreateScript(k) == IF k = "ok" THEN NoScript ELSE FailScript(1, k)

\* NativeScheduledTask(...) through KubernetesTaskGenerator: the job is submitted, the pipeline subscribed
Create(g, a, ch, k) ==
  /\ ~created /\ cl.job = "none" /\ obs.raised = "none"
  /\ LET c0 == Ctx(CreateScript(k))
         t == Try(c0, "create_job", 3)
     IN /\ conf' = [gc |-> g, archive |-> a, cache |-> ch]
        /\ IF t.r = "ok" THEN /\ created' = TRUE
                              /\ Assign([t.c EXCEPT !.cl.job = "new", !.off = 0], "none")
           ELSE /\ created' = FALSE
                /\ Assign(t.c, IF t.r = "conn" THEN "MaxRetryError" ELSE "JobLaunchError")
        /\ cnt' = cnt

CanStep == created

\* the polling interval fires
Tick(f) ==
  /\ CanStep /\ ~done /\ cnt.ticks < MaxTicks
  /\ LET adv == IF off > Interval THEN off ELSE Interval
         c0 == [Ctx(f) EXCEPT !.off = 0, !.age = IF age = NoSince THEN NoSince ELSE age + adv]
     IN Assign(EmitR(c0), "none")
  /\ cnt' = [cnt EXCEPT !.ticks = IF MaxTicks >= 99 THEN 0 ELSE @ + 1, !.bad = IF IsBad(f) THEN @ + 1 ELSE @, !.mids = IF f.midn > 0 THEN @ + 1 ELSE @]
  /\ UNCHANGED <<created, conf>>

\* kill() / terminate()
Kill(f) ==
  /\ CanStep /\ cnt.kills < MaxKills
  /\ LET c == TerminateR(Ctx(f)) IN Assign([c EXCEPT !.exc = "none"], IF c.exc = "conn" THEN "MaxRetryError" ELSE "none")
  /\ cnt' = [cnt EXCEPT !.kills = @ + 1, !.bad = IF IsBad(f) THEN @ + 1 ELSE @]
  /\ UNCHANGED <<created, conf>>

\* ^C while wait() sleeps: terminate(), then the KeyboardInterrupt goes on
Interrupt(f) ==
  /\ CanStep /\ Interrupts /\ cnt.kills < MaxKills /\ Alive(Ctx(f))
  /\ LET c == TerminateR(Ctx(f)) IN Assign([c EXCEPT !.exc = "none"], IF c.exc = "conn" THEN "MaxRetryError" ELSE "KeyboardInterrupt")
  /\ cnt' = [cnt EXCEPT !.kills = @ + 1, !.bad = IF IsBad(f) THEN @ + 1 ELSE @]
  /\ UNCHANGED <<created, conf>>

\* wait(): returns iff the task is not alive (else it sleeps: "StillWaiting")
WaitPeek ==
  /\ CanStep /\ cnt.peeks < MaxPeek
  /\ obs' = [calls |-> <<>>, raised |-> IF Alive(Ctx(NoScript)) THEN "StillWaiting" ELSE "none"]
  /\ cnt' = [cnt EXCEPT !.peeks = @ + 1]
  /\ UNCHANGED <<cl, tvars>>

\* ---- the cluster ----
PodNext(p) ==
  IF p = PUnsched THEN (IF "creating" \in Pendings THEN {PCreating} ELSE {}) \cup (IF "errpull" \in Pendings THEN {PErrPull} ELSE {})
                       \cup {PodNamed(o) : o \in Outcomes \cap EarlyOutcomes} \cup (IF Pendings = {} THEN {PRunning} ELSE {})
  ELSE IF p = PErrPull THEN {PCreating} \cup {PodNamed(o) : o \in Outcomes \cap {"deadline0"}}
  ELSE IF p = PCreating THEN {PRunning} \cup {PodNamed(o) : o \in Outcomes \cap StartOutcomes}
  ELSE IF p = PRunning THEN {PodNamed(o) : o \in Outcomes \cap RunOutcomes} \cup (IF Lost THEN {PLost} ELSE {})
  ELSE {}
Ran(p) == p.cs = "running" \/ (p.cs = "term" /\ p.tst)
Note(c) == [c EXCEPT !.ok = @ \/ (\E i \in 1..Len(c.pods) : c.pods[i].ph = "Succeeded"), !.ran = @ \/ (\E i \in 1..Len(c.pods) : Ran(c.pods[i]))]

EnvNext(c) ==
  LET one == Len(c.pods) = 1
      p == c.pods[1]
  IN {Note(x) : x \in
     (IF c.job = "new" /\ c.pods = <<>> THEN {[c EXCEPT !.job = "active", !.pods = <<PUnsched>>]} ELSE {})
     \cup (IF one THEN {[c EXCEPT !.pods = <<q>>] : q \in PodNext(p)} ELSE {})
     \cup (IF one /\ c.job = "active" /\ TerminalPod(p) /\ Idle THEN {[c EXCEPT !.job = "idle"]} ELSE {})    \* active = 0, no condition yet
     \cup (IF one /\ c.job \in {"active", "idle"} /\ TerminalPod(p)
           THEN {[c EXCEPT !.job = IF p.ph = "Succeeded" THEN (IF TwoPhase THEN "otherok" ELSE "complete") ELSE (IF TwoPhase THEN "other" ELSE "failed")]} ELSE {})
     \cup (IF one /\ c.nd < MaxDel /\ c.job = "active" /\ ~TerminalPod(p) THEN {[c EXCEPT !.pods = <<p, PUnsched>>, !.nd = @ + 1]} ELSE {})
     \cup (IF one /\ PodGC /\ c.job \in {"complete", "failed"} THEN {[c EXCEPT !.pods = <<>>]} ELSE {})
     \cup (IF Len(c.pods) = 2 THEN {[c EXCEPT !.pods = <<c.pods[2]>>]} ELSE {})
     \cup (IF one /\ p = PLost /\ c.job = "active" THEN {[c EXCEPT !.pods = <<PUnsched>>]} ELSE {})
     \cup (IF JobDel /\ c.job \in {"new", "active", "idle", "complete", "failed"} THEN {[c EXCEPT !.job = "gone"]} ELSE {})
     \cup (IF c.job = "gone" /\ c.pods # <<>> THEN {[c EXCEPT !.pods = <<>>]} ELSE {})}

Env(c) ==
  /\ created /\ c \in EnvNext(cl)
  /\ cl' = c
  /\ obs' = [calls |-> <<>>, raised |-> "none"]
  /\ UNCHANGED <<tvars, cnt>>

MidScripts == IF cnt.mids < MaxMid /\ ~Final(last.st) THEN {MidScript(n, c) : n \in Mids, c \in EnvNext(cl)} ELSE {}

EdgeR(l) == Emit => PrintT(ToJson(<<TS, l, TS'>>))
Lab(a, f, name) == <<a, [from |-> f.from, kind |-> f.kind, midn |-> f.midn, midcl |-> [job |-> f.midcl.job, pods |-> f.midcl.pods]], obs', name>>

NextRun ==
  /\ UNCHANGED <<case, res>>
  /\ \/ \E g \in Gcs, a \in Archives, ch \in Caches, k \in CreateKinds : Create(g, a, ch, k) /\ EdgeR(Lab("Create", CreateScript(k), "Create"))
     \/ \E f \in Scripts(Froms) : Tick(f) /\ EdgeR(Lab("Tick", f, IF IsBad(f) THEN "TickBad" ELSE "Tick"))
     \/ \E f \in MidScripts : Tick(f) /\ EdgeR(Lab("Tick", f, "TickMid"))
     \/ \E f \in Scripts(KillFroms) : Kill(f) /\ EdgeR(Lab("Kill", f, IF IsBad(f) THEN "KillBad" ELSE "Kill"))
     \/ \E f \in Scripts(KillFroms) : Interrupt(f) /\ EdgeR(Lab("Interrupt", f, "Interrupt"))
     \/ WaitPeek /\ EdgeR(Lab("WaitPeek", NoScript, "WaitPeek"))
     \/ \E c \in EnvNext(cl) : Env(c) /\ EdgeR(Lab("Env", NoScript, "Env"))

TickOK == Tick(NoScript) /\ UNCHANGED <<case, res>>
EnvAny == (\E c \in EnvNext(cl) : Env(c)) /\ UNCHANGED <<case, res>>
SpecRun == InitRun /\ [][NextRun]_vars
FairRun == SpecRun /\ WF_vars(TickOK) /\ WF_vars(EnvAny)

(***************************************************************************)
(* what callers rely on                                                    *)
(***************************************************************************)

States == {"initialising", "waiting_on_resource", "running", "finished", "failed", "None"}
TypeOK ==
  /\ last.k = "val" /\ last.st \in States /\ last.rs \in Reasons \cup {"none"} /\ last.rc \in {0 - 1, 0, 1, 128, 137, 143}
  /\ pull \in (0 - 9)..PullBudget /\ errs \in 0..3 /\ archived \in 0..1 /\ Len(cl.pods) <= 2
  /\ cl.job \in {"none", "new", "active", "idle", "complete", "failed", "other", "otherok", "gone"}

\* exitReason / returncode are defined iff the task is not alive
ResultIffDead == (IsAlive => (RetCode = 0 - 1 /\ ExitReason = "none")) /\ (~IsAlive => ExitReason \in Reasons)
\* a dead task is in a final state and its pipeline has completed; a completed pipeline means a dead task
DeadIsFinal == (~IsAlive => (Final(last.st) /\ done)) /\ (done => ~IsAlive)
\* finished <=> Success <=> return code 0
FinishedIsSuccess == (last.st = "finished" <=> last.rs = "Success") /\ (last.st = "finished" => last.rc = 0)
FailedHasReason == last.st = "failed" => last.rs \in Reasons \ {"Success"}
NotFinalNoVerdict == ~Final(last.st) => (last.rs = "none" /\ last.rc = 0 - 1)
\* Success is never invented: some pod of the job did succeed
SuccessIsReal == last.st = "finished" => cl.ok
\* SubmissionFailed by the pull budget needs 6 observed pull errors
PullVerdict == why = "pull" => pull < 0
\* terminated = the job object was deleted by this task, exactly once
TerminatedMeansDeleted == (terminated => (cl.job = "gone" /\ ndel = 1)) /\ ndel <= 1 /\ (ndel = 1 => terminated)
\* objects are archived at most once, after the end, and iff the rule asks for it
ArchiveRule == archived <= 1 /\ (archived = 1 => done) /\ ((done /\ why # "gcexc") => (archived = 1 <=> Pred(conf.archive, last.st)))
\* garbage collection: a completed task whose rule asks for it has deleted the job unless the deletion itself failed
GcRule == (done /\ Pred(conf.gc, last.st) /\ cnt.bad = 0 /\ cl.nd = 0 /\ why # "gcexc") => (terminated \/ cl.job = "gone")
\* nothing escapes from a tick; only a connection error at the deletion escapes from kill()
EscapeRule == obs.raised \in {"none", "StillWaiting", "KeyboardInterrupt", "MaxRetryError", "JobLaunchError"}
\* every verdict has a cause the documentation names; the deviations are excluded by the constants of the promise models
Causes == {"none", "cluster", "notfound", "pull", "outage", "errs3", "nodes", "gcexc"}
VerdictHasCause == why \in Causes /\ (Final(last.st) <=> why # "none")
NoFatalNodesCall == why # "nodes"
NoGcFlip == why # "gcexc"

\* the verdict as a function of the final cluster outcome, for undisturbed runs (no API failure, no kill, no deletion by others)
Undisturbed == cnt.bad = 0 /\ cnt.kills = 0 /\ cl.nd = 0 /\ ~JobDel /\ ~PodGC /\ ~TwoPhase /\ ~Lost
ExpectedOf(p, seenRun) ==
  CASE p = PodNamed("ok") -> <<"finished", "Success", 0>>
    [] p = PodNamed("err") -> <<"failed", "KnownIssue", 1>>
    [] p = PodNamed("oom") -> <<"failed", "Killed", 137>>
    [] p = PodNamed("term143") -> <<"failed", "KnownIssue", 143>>
    [] p = PodNamed("sig15") -> <<"failed", "Cancelled", 143>>
    [] p = PodNamed("deadline") -> <<"failed", "ResourceExhausted", 137>>
    [] p = PodNamed("evicted137") -> <<"failed", "ResourceExhausted", 137>>
    [] p = PodNamed("deadline0") -> <<"failed", IF seenRun THEN "ResourceExhausted" ELSE "SubmissionFailed", 0 - 1>>
    [] p = PodNamed("evicted") -> <<"failed", IF seenRun THEN "ResourceExhausted" ELSE "SubmissionFailed", 0 - 1>>
    [] p = PodNamed("nostart") -> <<"failed", "SubmissionFailed", 0 - 1>>
    [] OTHER -> <<"?", "?", 0>>
VerdictIsFunctionOfOutcome ==
  (Undisturbed /\ Final(last.st) /\ why = "cluster" /\ Len(cl.pods) = 1) => <<last.st, last.rs, last.rc>> = ExpectedOf(cl.pods[1], started)
\* the stronger wish: independent of what earlier polls happened to see (deviation PollDependentReason)
VerdictIndependentOfPolling ==
  (Undisturbed /\ Final(last.st) /\ why = "cluster" /\ Len(cl.pods) = 1) => <<last.st, last.rs, last.rc>> = ExpectedOf(cl.pods[1], cl.ran)
\* wishes the code does not fulfil (witnesses of the named deviations)
OomIsResourceExhausted == (Final(last.st) /\ Len(cl.pods) = 1 /\ cl.pods[1] = PodNamed("oom") /\ why = "cluster") => last.rs = "ResourceExhausted"
RunningMeansPodRunning == last.st = "running" => \E i \in 1..Len(cl.pods) : cl.pods[i].ph \in {"Running", "Succeeded", "Failed", "Unknown"}
GivingUpDeletes == (why \in {"outage", "errs3", "nodes"} /\ done) => cl.job = "gone"
SomeoneIsKilled == last.rs # "Killed"
NoVerdictFromConfusion == why # "errs3"
NothingEscapesFromKill == obs.raised # "MaxRetryError"
NeverNoneState == last.st # "None"

\* action properties
FinalStaysFinal == [][Final(last.st) => Final(last'.st)]_vars
DeadStaysDead == [][~IsAlive => (~IsAlive' /\ last' = last)]_vars
VerdictStable == [][~IsAlive => (ExitReason' = ExitReason /\ RetCode' = RetCode)]_vars
StartedMonotone == [][(started => started') /\ pull' <= pull]_vars
\* after the pipeline completed and the job was deleted the task never talks to the API again
QuietWhenOver == [][(done /\ terminated) => obs'.calls = <<>>]_vars
\* forward only: initialising -> {waiting, running}* -> final        (waiting <-> running is deviation RunningIsActive)
Rank(st) == CASE st = "initialising" -> 0 [] st = "waiting_on_resource" -> 1 [] st = "running" -> 1 [] st = "None" -> 1 [] OTHER -> 2
ForwardOnly == [][Rank(last'.st) >= Rank(last.st)]_vars
StrictlyForward == [][(last.st = "running") => last'.st # "waiting_on_resource"]_vars
\* a step in which every request failed ends the task only through the documented limits
OutageNeedsLimit == [][(~Final(last.st) /\ Final(last'.st) /\ why' = "outage") => age' # NoSince /\ age' + off' > OutageLimit]_vars
\* the wish: an unreachable API ends the task only after the documented five minutes (deviation ConnOutageThreePolls)
OutageNeedsMinutes == [][(~Final(last.st) /\ Final(last'.st) /\ why' \in {"outage", "errs3"}) => age' # NoSince /\ age' + off' > OutageLimit]_vars
\* a kill step (job not yet deleted by this task) whose requests all succeed and that sees at most one pod deletes the job and ends the task
KillWorks == [][(cnt'.kills = cnt.kills + 1 /\ cnt'.bad = cnt.bad /\ ~terminated /\ Len(cl.pods) <= 1 /\ obs'.raised \in {"none", "KeyboardInterrupt"})
                => (~IsAlive' /\ cl'.job = "gone")]_vars
\* the wish: every kill ends the task (deviation / finding KillLost)
KillAlwaysWorks == [][(cnt'.kills = cnt.kills + 1) => ~IsAlive']_vars

\* repaired code: a requested kill ends the task as soon as the API is healthy again
KillLeadsToEnd == [](req => <>(~IsAlive))
\* liveness (fair ticks with a healthy API, fair cluster): the task ends
Ends == [](created => <>(~IsAlive))

(***************************************************************************)
(* part "map": _getTaskState as a function                                 *)
(***************************************************************************)
TermGrid == {Pod(ph, prs, "term", code, trs, sig, tst) : ph \in {"Succeeded", "Failed"}, prs \in {"none", "Evicted", "DeadlineExceeded", "NodeLost"},
             code \in {0, 1, 137, 143}, trs \in {"none", "Completed", "OOMKilled", "Error"}, sig \in {0, 2, 9, 15}, tst \in BOOLEAN}
PlainGrid == {Pod(ph, prs, cs, 0, "none", 0, FALSE) : ph \in {"Pending", "Running", "Succeeded", "Failed", "Unknown", "None"},
              prs \in {"none", "Evicted", "DeadlineExceeded", "NodeLost"}, cs \in {"nocs", "waiting", "errpull", "running", "two"}}
FewTerm == {Pod(ph, "none", "term", code, "Error", 0, TRUE) : ph \in {"Pending", "Running", "Unknown", "None"}, code \in {1, 137}}
PodLists(slice) ==
  CASE slice = "full" -> {<<p>> : p \in TermGrid \cup PlainGrid \cup FewTerm} \cup {<<>>, <<PRunning, PUnsched>>}
    [] slice = "quick" -> {<<p>> : p \in {q \in TermGrid : q.prs \in {"none", "Evicted"} /\ q.sig \in {0, 15} /\ q.code \in {0, 1, 137}} \cup PlainGrid \cup FewTerm}
                          \cup {<<>>, <<PRunning, PUnsched>>}
    [] slice = "api" -> {<<p>> : p \in {PUnsched, PErrPull, PRunning, PLost, PodNamed("ok"), PodNamed("err"), PodNamed("evicted")}} \cup {<<>>, <<PRunning, PUnsched>>}
MapScripts(slice) ==
  IF slice = "api" THEN {FailScript(k, kind) : k \in {1, 2, 3}, kind \in {"e503", "e504", "conn", "blip503", "blip504", "blipconn"}} ELSE {NoScript}

InitMap ==
  /\ cl \in {[job |-> j, pods |-> ps, nd |-> 0, ok |-> FALSE, ran |-> FALSE] :
             j \in {"new", "active", "idle", "complete", "failed", "other", "gone"}, ps \in PodLists(MapSlice)}
  /\ created = TRUE /\ conf = [gc |-> "none", archive |-> "none", cache |-> TRUE]
  /\ last \in {Waiting, Running} /\ started \in BOOLEAN /\ pull \in (IF MapSlice = "api" THEN {PullBudget} ELSE {PullBudget, 0, 0 - 1}) /\ errs = 0
  /\ age \in (IF MapSlice = "api" THEN {NoSince, 10, 70} ELSE {NoSince}) /\ off = 0
  /\ cached = TRUE /\ closed = FALSE /\ done = FALSE /\ terminated = FALSE /\ called = FALSE /\ req = FALSE /\ archived = 0 /\ ndel = 0 /\ why = "none"
  /\ obs = [calls |-> <<>>, raised |-> "none"] /\ cnt = [ticks |-> 0, kills |-> 0, bad |-> 0, mids |-> 0, peeks |-> 0]
  /\ case \in MapScripts(MapSlice) /\ res = <<>>

MapResult ==
  LET g == GTS(Ctx(case)) IN
  [x |-> g.x, started |-> g.c.started, pull |-> g.c.pull, age |-> g.c.age, off |-> g.c.off, calls |-> g.c.calls]

EmitMap == (Part = "map" /\ Emit) =>
  PrintT(ToJson([case |-> [job |-> cl.job, pods |-> cl.pods, last |-> last, started |-> started, pull |-> pull, age |-> age,
                           f |-> [from |-> case.from, kind |-> case.kind]], res |-> MapResult]))
\* promises of the mapping on the whole grid
MapTotal == Part = "map" => LET r == MapResult.x IN
  /\ r.k \in {"val", "none"}
  /\ r.k = "val" => /\ r.st \in States
                    /\ (r.st = "finished" <=> r.rs = "Success")
                    /\ (~Final(r.st) => r.rs = "none" /\ r.rc = 0 - 1)
                    /\ (r.st = "failed" => r.rs \in Reasons \ {"Success"})
\* a healthy API and a readable job never yield a verdict from a pod that has not ended and was not pulled to death
MapNoEarlyVerdict == (Part = "map" /\ case = NoScript /\ cl.job \in {"new", "active"} /\ pull >= 0 /\ Len(cl.pods) = 1
                      /\ ~(cl.pods[1].cs = "errpull" /\ ~started /\ pull = 0)) => ~Final(MapResult.x.st)

(***************************************************************************)
(* part "exit": isAlive / returncode / exitReason as a function            *)
(***************************************************************************)
InitExit ==
  /\ cl = InitCl /\ created = TRUE /\ conf = [gc |-> "none", archive |-> "none", cache |-> TRUE]
  /\ last \in {T(st, rs, rc) : st \in States, rs \in Reasons \cup {"none"}, rc \in {0 - 1, 0, 1, 127, 128, 137}}
  /\ started = FALSE /\ pull = PullBudget /\ errs = 0 /\ age = NoSince /\ off = 0 /\ cached = FALSE
  /\ closed \in BOOLEAN /\ done = FALSE /\ terminated \in BOOLEAN /\ called = FALSE /\ req = FALSE /\ archived = 0 /\ ndel = 0 /\ why = "none"
  /\ obs = [calls |-> <<>>, raised |-> "none"] /\ cnt = [ticks |-> 0, kills |-> 0, bad |-> 0, mids |-> 0, peeks |-> 0]
  /\ case = <<>> /\ res = <<>>
EmitExit == (Part = "exit" /\ Emit) =>
  PrintT(ToJson([case |-> [last |-> last, closed |-> closed, terminated |-> terminated],
                 res |-> [alive |-> IsAlive, rc |-> RetCode, reason |-> ExitReason, status |-> last.st]]))
ExitSane == Part = "exit" => (IsAlive => ExitReason = "none" /\ RetCode = 0 - 1) /\ (~IsAlive => ExitReason \in Reasons)

Init == IF Part = "run" THEN InitRun ELSE IF Part = "map" THEN InitMap ELSE InitExit
Next == IF Part = "run" THEN NextRun ELSE UNCHANGED vars
=============================================================================
