------------------------------- MODULE Memo -------------------------------
(***************************************************************************)
(* C16 -- memoization hashes identify equivalent work and nothing else.    *)
(*                                                                         *)
(* Code: ComponentSpecification._compute_memoization_info /                *)
(* _memoization_info_to_hash (experiment/model/graph.py); the consumers of *)
(* the hashes are Controller.can_memoize / _memoize_populate_component_... *)
(*                                                                         *)
(* A *world* is one instantiated experiment holding a chain of at most     *)
(* three components                                                        *)
(*        c[1]  <--  c[2]  <--  c[3]           (consumer <-- producer)     *)
(* c[i] consumes                                                           *)
(*   - `own`: at most one file that no component produces (input file,     *)
(*            data file, file of an application dependency), and           *)
(*   - `up` : (i < n) either one file produced by c[i+1] ("pfile") or the  *)
(*            working directory of c[i+1] ("pdir").                        *)
(* Every consumed file has a content id, a file name, a reference method   *)
(* and may be missing.  Besides that a component has an executable, one    *)
(* literal argument token, a back-end with or without a container image    *)
(* and a number of things that must not matter (see `where` below).        *)
(*                                                                         *)
(* Strong(w,i) / Fuzzy(w,i) are the abstract identities: structured values *)
(* that are equal exactly when the md5 strings of the implementation are   *)
(* required to be equal.  The specification is a *pair generator*: Init    *)
(* picks a base world `a`, one named action per aspect produces the world  *)
(* `b` that differs from `a` in exactly that aspect.  The property is      *)
(* stated twice, independently:                                            *)
(*   (1) constructively, by the operators Strong / Fuzzy, and              *)
(*   (2) as the classification of the aspects the property text gives      *)
(*       (RelevantS / RelevantF: which single differences must change the  *)
(*       hash of which component of the chain).                            *)
(* TLC checks that both agree on the whole family (invariants below) and   *)
(* emits every pair with the expected relations; the driver                *)
(* harness/checks/c16.py instantiates both worlds as real experiments and  *)
(* compares memoization_hash / memoization_hash_fuzzy of every component.  *)
(***************************************************************************)
EXTENDS Integers, Sequences, FiniteSets, TLC, Json

CONSTANTS MaxChain,      \* 1..3 length of the longest chain
          OwnShapes,     \* base shapes of c[1].own:  subset of OwnShapeNames
          UpShapes,      \* base shapes of c[1].up :  subset of UpShapeNames
          Up2Shapes,     \* base shapes of c[2].up (chains of length 3)
          ImageShapes,   \* base back-end/image of c[1]: subset of ImageShapeNames
          MaxFeatures,   \* bound on the number of non-default features of a base (keeps the quick tier small)
          Schemes,       \* naming schemes RenameComponents may switch to (rendered by the driver)
          NamingSchemes, \* naming schemes of the extra "naming" base worlds (replica-like names, see NameBases)
          NamingChain,   \* longest chain of a naming base world
          ContentIds,    \* related contents of the "content" base worlds: subset of RelatedContents
          Emit           \* TRUE: print every pair as JSON

OwnShapeNames   == {"none", "input-ref", "input-copy", "input-output", "data-ref", "data-copy", "appdep-ref", "appdep-link"}
UpShapeNames    == {"pfile-ref", "pfile-copy", "pfile-output", "pdir-ref"}
ImageShapeNames == {"local", "lsf", "lsf-img1", "k8s-img1"}

ASSUME /\ MaxChain \in 1..3 /\ OwnShapes \subseteq OwnShapeNames /\ UpShapes \subseteq UpShapeNames
       /\ Up2Shapes \subseteq UpShapeNames /\ ImageShapes \subseteq ImageShapeNames

VARIABLES a,      \* the base world
          b,      \* the perturbed world
          asp,    \* [kind, at]: the aspect in which b differs from a, `at` = index of the changed component (0: the world)
          phase   \* "base" | "pair"
vars == <<a, b, asp, phase>>

---------------------------------------------------------------------------
(* Values *)

Methods == {"ref", "copy", "link", "output"}
InArgs(m) == m \in {"ref", "output"}       \* the reference string occurs in the command line (copy/link only stage files)

NoFile == [kind |-> "none", content |-> "", method |-> "", fname |-> "", present |-> TRUE, rel |-> FALSE]
File(kind, content, method, fname) ==
          [kind |-> kind, content |-> content, method |-> method, fname |-> fname, present |-> TRUE, rel |-> FALSE]

OwnOf(shape) == CASE shape = "none"         -> NoFile
                  [] shape = "input-ref"    -> File("input", "k1", "ref", "f1")
                  [] shape = "input-copy"   -> File("input", "k1", "copy", "f1")
                  [] shape = "input-output" -> File("input", "k1", "output", "f1")
                  [] shape = "data-ref"     -> File("data", "k1", "ref", "f1")
                  [] shape = "data-copy"    -> File("data", "k1", "copy", "f1")
                  [] shape = "appdep-ref"   -> File("appdep", "k1", "ref", "f1")
                  [] shape = "appdep-link"  -> File("appdep", "k1", "link", "f1")
UpOf(shape) == CASE shape = "pfile-ref"     -> File("pfile", "k3", "ref", "o1")
                 [] shape = "pfile-copy"    -> File("pfile", "k3", "copy", "o1")
                 [] shape = "pfile-output"  -> File("pfile", "k3", "output", "o1")
                 [] shape = "pdir-ref"      -> File("pdir", "", "ref", "")
BackendOf(shape) == CASE shape = "local" -> "local" [] shape = "lsf" -> "lsf" [] shape = "lsf-img1" -> "lsf"
                      [] shape = "k8s-img1" -> "kubernetes"
ImageOf(shape) == IF shape \in {"lsf-img1", "k8s-img1"} THEN "img1" ELSE "none"

Comp(own, up, ishape) ==
    [exe |-> "e1", exeVia |-> "literal", lit |-> "l1", viaVar |-> FALSE, own |-> own, up |-> up,
     backend |-> BackendOf(ishape), image |-> ImageOf(ishape), res |-> 1, envvar |-> "v1"]

Dummy == Comp(NoFile, NoFile, "local")
Producer(up) == Comp(File("input", "k2", "ref", "f2"), up, "local")

(* things the hashes must not depend on: where the instance lives, names of components and stages, the stage indices, *)
(* time, whether the components are replicas                                                                          *)
Where0 == [loc |-> "A", scheme |-> "plain", stageNames |-> "s", shift |-> 0, time |-> 0, replicated |-> FALSE]

(* A bystander ("sibling"): a component without references that lives in the stage of the deepest component c[n] (the  *)
(* one that carries `replicate` when the world is replicated) and runs ANOTHER executable with ANOTHER argument.       *)
(* It exists for the naming relations: replicas are called <blueprint><index>, so the name of a sibling may look like  *)
(* the blueprint of a replica (`gen` next to the replicas gen10, gen11 of `gen1`) or like a replica of another         *)
(* component (`gen7` next to the replicas gen0, gen1 of `gen`).  Whoever maps a name to the wrong definition changes    *)
(* the identity: the sibling's executable differs from everybody else's.                                               *)
NoSibling == [present |-> FALSE, exe |-> "e3", lit |-> "l3"]
Sibling   == [present |-> TRUE,  exe |-> "e3", lit |-> "l3"]

World(n, own1, up1, img1, same, up2) ==
    [n |-> n,
     c |-> [i \in 1..3 |-> CASE i = 1 -> Comp(OwnOf(own1), IF n >= 2 THEN UpOf(up1) ELSE NoFile, img1)
                             [] i = 2 -> IF n >= 2 THEN Producer(IF n = 3 THEN UpOf(up2) ELSE NoFile) ELSE Dummy
                             [] i = 3 -> IF n = 3 THEN Producer(NoFile) ELSE Dummy],
     same |-> same,          \* c[1] and c[2] live in the same stage (then the reference may be spelled relatively)
     sib |-> NoSibling,
     flicker |-> 0,          \* i > 0: the own file of c[i] was missing when the hashes were first asked for and is back now
     mentions |-> 1,         \* how many times the arguments spell each reference they mention (the identity of a command line
                             \* that names its input k times is decided once per mention: the k-th mention counts like the first)
     focus |-> "all",        \* "content": a content base world, only the content / file name aspects are perturbed
     where |-> Where0]

Default == [own |-> "input-ref", up |-> "pfile-ref", img |-> "local", same |-> FALSE, up2 |-> "pfile-ref"]
Features(n, o, u, g, s, u2) == (IF o # Default.own THEN 1 ELSE 0) + (IF n >= 2 /\ u # Default.up THEN 1 ELSE 0)
                               + (IF g # Default.img THEN 1 ELSE 0) + (IF n >= 2 /\ s THEN 1 ELSE 0)
                               + (IF n = 3 /\ u2 # Default.up2 THEN 1 ELSE 0)

Bases == { World(p[1], p[2], p[3], p[4], p[5], p[6]) :
              p \in { q \in (1..MaxChain) \X OwnShapes \X UpShapes \X ImageShapes \X BOOLEAN \X Up2Shapes :
                        /\ Features(q[1], q[2], q[3], q[4], q[5], q[6]) <= MaxFeatures
                        /\ q[1] = 1 => (q[3] = Default.up /\ ~q[5])          \* canonical: unused parameters at default
                        /\ q[1] < 3 => q[6] = Default.up2 } }

(* naming base worlds: default shapes, a sibling, a naming scheme with replica-like names, replicated or not *)
NameBases == { [World(n, Default.own, Default.up, Default.img, FALSE, Default.up2)
                    EXCEPT !.sib = Sibling, !.where.scheme = s, !.where.replicated = r] :
                 n \in 1..NamingChain, s \in NamingSchemes, r \in BOOLEAN }

(* mention base worlds: the default chains with every reference spelled several times in the arguments (a tool that    *)
(* takes the same input for several options).  All aspects are perturbed: renaming the files, the components, the      *)
(* stages or moving the instance must leave every hash alone however often the names occur in the command line.        *)
MentionCounts == {2, 17}
MentionBases == { [World(q[1], Default.own, Default.up, Default.img, q[2], Default.up2) EXCEPT !.mentions = q[3]] :
                    q \in { r \in (1..2) \X BOOLEAN \X MentionCounts : r[1] = 1 => ~r[2] } }

(* Contents.  A content id is an opaque identity for the specification: DISTINCT IDS ARE DISTINCT CONTENTS, whatever   *)
(* their bytes have in common.  The ids below are rendered by the driver to bytes that stand in the relations a sloppy  *)
(* digest confuses: B a base text; B.prefix a proper prefix of it; B.nul the text padded with NUL bytes; B.nl the text   *)
(* with one more newline; B.big4k / B.big64k texts that start with B and exceed the 4 KiB / 64 KiB block sizes; empty.  *)
(* ("k1", "k2", "k3", "k9" of the other worlds are unrelated short texts.)                                              *)
RelatedContents == {"B", "B.prefix", "B.nul", "B.nl", "B.big4k", "B.big64k", "empty"}
ASSUME ContentIds \subseteq RelatedContents

(* content base worlds: the consumer c[1] reads its own input file AND a file of its producer; the two contents range  *)
(* over all pairs of related contents; the own file's reference is the shorter or the longer one of the two (the code   *)
(* visits the references by decreasing length of their text).  Only contents and file names are perturbed (focus).      *)
ContentBases == { [World(2, Default.own, Default.up, Default.img, FALSE, Default.up2)
                       EXCEPT !.focus = "content", !.c[1].own.content = ko, !.c[1].up.content = ku,
                              !.c[1].own.fname = IF long THEN "g1" ELSE "f1"] :
                    ko \in ContentIds, ku \in ContentIds, long \in BOOLEAN }

(* How the executable is written down: literally, or as "%(tool)s" with the program given by a variable of the        *)
(* component, a global variable, or a global variable of the active (non-default) platform.  The identity is the      *)
(* PROGRAM (c.exe), never the spelling.  Executable base worlds: some component of a chain of length <= 2 (read through *)
(* a file or through the producer's directory) spells its executable through a variable; only the executable aspects   *)
(* are perturbed (focus "exe").                                                                                        *)
ExeVias == {"literal", "comp", "global", "platform"}
ExeBases == { [World(q[1], Default.own, q[2], Default.img, FALSE, Default.up2) EXCEPT !.focus = "exe", !.c[q[3]].exeVia = q[4]] :
                 q \in { r \in (1..2) \X {"pfile-ref", "pdir-ref"} \X (1..2) \X (ExeVias \ {"literal"}) :
                           r[3] <= r[1] /\ (r[1] = 1 => r[2] = "pfile-ref") } }

---------------------------------------------------------------------------
(* The abstract identities *)

NoId == [def |-> FALSE]
Tok(t, content, id, fname, method) == [t |-> t, content |-> content, id |-> id, fname |-> fname, method |-> method]
NoTok == Tok("", "", NoId, "", "")

HasUp(w, i) == i < w.n /\ w.c[i].up.kind # "none"

(* the files c[i] itself consumes that are missing *)
OwnMissing(w, i) == w.c[i].own.kind # "none" /\ ~w.c[i].own.present
UpMissing(w, i)  == HasUp(w, i) /\ w.c[i].up.kind = "pfile" /\ ~w.c[i].up.present

(* a bag of (content identity, method) pairs as a set of <<token, multiplicity>> *)
Bag2(t1, t2) == IF t1 = NoTok /\ t2 = NoTok THEN {}
                ELSE IF t1 = NoTok THEN {<<t2, 1>>} ELSE IF t2 = NoTok THEN {<<t1, 1>>}
                ELSE IF t1 = t2 THEN {<<t1, 2>>} ELSE {<<t1, 1>>, <<t2, 1>>}

RECURSIVE Strong(_, _)
Strong(w, i) ==
    LET c == w.c[i]
        upId == IF HasUp(w, i) /\ c.up.kind = "pdir" THEN Strong(w, i + 1) ELSE NoId
        \* a consumed file is identified by its content and the method, never by its name or its producer
        ownF == IF c.own.kind = "none" THEN NoTok ELSE Tok("file", c.own.content, NoId, "", c.own.method)
        upF  == IF HasUp(w, i) /\ c.up.kind = "pfile" THEN Tok("file", c.up.content, NoId, "", c.up.method) ELSE NoTok
        \* a consumed directory of a producer is identified by the work that produced it
        upD  == IF HasUp(w, i) /\ c.up.kind = "pdir" THEN Tok("producer", "", upId, "", c.up.method) ELSE NoTok
    IN IF OwnMissing(w, i) \/ UpMissing(w, i) THEN NoId
       ELSE IF HasUp(w, i) /\ c.up.kind = "pdir" /\ ~upId.def THEN NoId
       ELSE [def |-> TRUE, exe |-> c.exe,
             args |-> <<c.lit, IF InArgs(c.own.method) THEN ownF ELSE NoTok,
                               IF HasUp(w, i) /\ InArgs(c.up.method) THEN (IF c.up.kind = "pfile" THEN upF ELSE upD) ELSE NoTok>>,
             files |-> Bag2(ownF, upF),
             image |-> c.image]

(* the sibling consumes nothing: its strong and fuzzy identity coincide *)
SibId(w) == [def |-> TRUE, exe |-> w.sib.exe, args |-> <<w.sib.lit, NoTok, NoTok>>, files |-> {}, image |-> "none"]

RECURSIVE Fuzzy(_, _)
Fuzzy(w, i) ==
    LET c == w.c[i]
        upId == IF HasUp(w, i) THEN Fuzzy(w, i + 1) ELSE NoId
        ownF == IF c.own.kind = "none" THEN NoTok ELSE Tok("file", c.own.content, NoId, "", c.own.method)
        \* a produced file: identity of the producer + which of its files, NOT the content
        upF  == IF HasUp(w, i) /\ c.up.kind = "pfile" THEN Tok("fuzzy", "", upId, c.up.fname, c.up.method) ELSE NoTok
        upD  == IF HasUp(w, i) /\ c.up.kind = "pdir" THEN Tok("fuzzy", "", upId, "", c.up.method) ELSE NoTok
    IN IF OwnMissing(w, i) \/ UpMissing(w, i) THEN NoId    \* (the second disjunct is what the code does; not claimed, see FuzzyClaimed)
       ELSE IF HasUp(w, i) /\ ~upId.def THEN NoId
       ELSE [def |-> TRUE, exe |-> c.exe,
             args |-> <<c.lit, IF InArgs(c.own.method) THEN ownF ELSE NoTok,
                               IF HasUp(w, i) /\ InArgs(c.up.method) THEN (IF c.up.kind = "pfile" THEN upF ELSE upD) ELSE NoTok>>,
             files |-> Bag2(ownF, upF),
             image |-> c.image]

---------------------------------------------------------------------------
(* The pair generator: one action per aspect *)

NoAsp == [kind |-> "none", at |-> 0]
SibAt == 9          \* "position" of the sibling: not an index of the chain
Other(x, s) == CHOOSE y \in s : y # x

Init == /\ phase = "base" /\ a \in (Bases \cup NameBases \cup ContentBases \cup ExeBases \cup MentionBases) /\ b = a /\ asp = NoAsp

ContentFocus == {"ownContent", "upContent", "ownName", "identity"}
ExeFocus == {"exe", "exeVia", "lit", "identity", "rename"}
Pair(kind, at, w) == /\ phase = "base" /\ phase' = "pair" /\ a' = a /\ b' = w /\ asp' = [kind |-> kind, at |-> at]
                     /\ \/ a.focus = "all"
                        \/ a.focus = "content" /\ kind \in ContentFocus
                        \/ a.focus = "exe" /\ kind \in ExeFocus

SetC(i, f, v)   == [a EXCEPT !.c[i][f] = v]
SetOwn(i, f, v) == [a EXCEPT !.c[i].own[f] = v]
SetUp(i, f, v)  == [a EXCEPT !.c[i].up[f] = v]
SetWhere(f, v)  == [a EXCEPT !.where[f] = v]
HasOwn(i) == i <= a.n /\ a.c[i].own.kind # "none"
HasUpA(i) == HasUp(a, i)

(* -- aspects the strong hash of c[i] depends on ------------------------- *)
ChangeExecutable(i) == i <= a.n /\ Pair("exe", i, SetC(i, "exe", "e2"))
ChangeLiteral(i)    == i <= a.n /\ Pair("lit", i, SetC(i, "lit", "l2"))
(* the new content: an unrelated one in the ordinary worlds, every other related one in the content worlds *)
NewContent(i, old, k) == k # old /\ IF a.focus = "all" THEN k = "k9" ELSE (i = 1 /\ k \in ContentIds)
ChangeOwnContent(i, k) == HasOwn(i) /\ NewContent(i, a.c[i].own.content, k) /\ Pair("ownContent", i, SetOwn(i, "content", k))
ChangeOwnMethod(i, m) == /\ HasOwn(i) /\ m # a.c[i].own.method
                         /\ Pair("ownMethod", i, SetOwn(i, "method", m))
ChangeProducedContent(i, k) == /\ HasUpA(i) /\ a.c[i].up.kind = "pfile" /\ NewContent(i, a.c[i].up.content, k)
                               /\ Pair("upContent", i, SetUp(i, "content", k))
ChangeUpMethod(i, m) == /\ HasUpA(i) /\ a.c[i].up.kind = "pfile" /\ m # a.c[i].up.method
                        /\ Pair("upMethod", i, SetUp(i, "method", m))
ChangeImage(i) == /\ i <= a.n
                  /\ \/ a.c[i].image = "none" /\ Pair("image", i, [a EXCEPT !.c[i].image = "img1", !.c[i].backend = "kubernetes"])
                     \/ a.c[i].image = "none" /\ Pair("image", i, [a EXCEPT !.c[i].image = "img1", !.c[i].backend = "lsf"])
                     \/ a.c[i].image # "none" /\ Pair("image", i, SetC(i, "image", "img2"))
                     \/ a.c[i].image # "none" /\ a.c[i].backend = "lsf" /\ Pair("image", i, SetC(i, "image", "none"))

(* -- aspects no hash may depend on --------------------------------------- *)
(* the same program, spelled differently (in the ordinary worlds: through a component variable only) *)
ExecutableViaVariable(i, how) == /\ i <= a.n /\ how # a.c[i].exeVia /\ (how = "comp" \/ a.focus = "exe")
                                 /\ Pair("exeVia", i, SetC(i, "exeVia", how))
LiteralViaVariable(i) == i <= a.n /\ Pair("viaVar", i, SetC(i, "viaVar", TRUE))   \* same resolved arguments
RenameOwnFile(i)      == HasOwn(i) /\ Pair("ownName", i, SetOwn(i, "fname", IF a.c[i].own.fname = "g1" THEN "f1" ELSE "g1"))
RenameProducedFile(i) == HasUpA(i) /\ a.c[i].up.kind = "pfile" /\ Pair("upName", i, SetUp(i, "fname", "g2"))
RespellReference      == HasUpA(1) /\ a.same /\ Pair("respell", 1, SetUp(1, "rel", TRUE))
ChangeBackendOnly(i)  == /\ i <= a.n
                         /\ \/ a.c[i].backend = "local" /\ Pair("backendOnly", i, SetC(i, "backend", "lsf"))
                            \/ a.c[i].backend = "lsf" /\ a.c[i].image = "none" /\ Pair("backendOnly", i, SetC(i, "backend", "local"))
                            \/ a.c[i].backend = "lsf" /\ a.c[i].image # "none" /\ Pair("backendOnly", i, SetC(i, "backend", "kubernetes"))
                            \/ a.c[i].backend = "kubernetes" /\ Pair("backendOnly", i, SetC(i, "backend", "lsf"))
ChangeResources(i)    == i <= a.n /\ Pair("resources", i, SetC(i, "res", 2))
ChangeEnvironment(i)  == i <= a.n /\ Pair("environment", i, SetC(i, "envvar", "v2"))
MoveInstance          == phase = "base" /\ Pair("move", 0, SetWhere("loc", "B"))
RenameComponents(s)   == s \in Schemes /\ s # a.where.scheme /\ Pair("rename", 0, SetWhere("scheme", s))
RenameStages          == phase = "base" /\ Pair("stageName", 0, SetWhere("stageNames", "t"))
ShiftStages           == phase = "base" /\ Pair("stageShift", 0, SetWhere("shift", 1))
ChangeTime            == phase = "base" /\ Pair("time", 0, SetWhere("time", 1))
Replicate             == ~a.where.replicated /\ Pair("replicate", 0, SetWhere("replicated", TRUE))
(* only the bystander changes: no hash of the chain may move, the bystander's own hash must *)
ChangeSiblingExecutable == a.sib.present /\ Pair("sibExe", SibAt, [a EXCEPT !.sib.exe = "e4"])
ChangeSiblingLiteral    == a.sib.present /\ Pair("sibLit", SibAt, [a EXCEPT !.sib.lit = "l4"])
Identity              == phase = "base" /\ Pair("identity", 0, a)

(* -- missing files -------------------------------------------------------- *)
(* the file disappears, the hashes are asked for (none may exist), the file comes back: the hashes are those of the   *)
(* untouched world -- nothing computed while the input was missing may stick                                          *)
FlickerOwnFile(i)     == HasOwn(i) /\ Pair("ownFlicker", i, [a EXCEPT !.flicker = i])
RemoveOwnFile(i)      == HasOwn(i) /\ Pair("ownMissing", i, SetOwn(i, "present", FALSE))
RemoveProducedFile(i) == HasUpA(i) /\ a.c[i].up.kind = "pfile" /\ Pair("upMissing", i, SetUp(i, "present", FALSE))

Next == \/ \E i \in 1..3, k \in {"k9", "B", "B.prefix", "B.nul", "B.nl", "B.big4k", "B.big64k", "empty"} :
                 ChangeOwnContent(i, k) \/ ChangeProducedContent(i, k)
        \/ \E i \in 1..3, how \in {"literal", "comp", "global", "platform"} : ExecutableViaVariable(i, how)
        \/ \E i \in 1..3 : \/ ChangeExecutable(i) \/ ChangeLiteral(i)
                           \/ ChangeImage(i) \/ LiteralViaVariable(i) \/ RenameOwnFile(i) \/ RenameProducedFile(i)
                           \/ ChangeBackendOnly(i) \/ ChangeResources(i) \/ ChangeEnvironment(i)
                           \/ RemoveOwnFile(i) \/ RemoveProducedFile(i) \/ FlickerOwnFile(i)
        \/ \E i \in 1..3, m \in {"ref", "copy", "link", "output"} : ChangeOwnMethod(i, m) \/ ChangeUpMethod(i, m)
        \/ \E s \in {"plain", "renamed", "affix", "affix2", "digits", "digitmid", "repldigit", "repldigit2", "replsib"} : RenameComponents(s)
        \/ RespellReference \/ MoveInstance \/ RenameStages \/ ShiftStages \/ ChangeTime \/ Replicate \/ Identity
        \/ ChangeSiblingExecutable \/ ChangeSiblingLiteral

Spec == Init /\ [][Next]_vars

---------------------------------------------------------------------------
(* The property, as a classification of the aspects (second, independent formulation) *)

(* "same executable, same arguments after each reference has been replaced by the hash of the content it refers to,  *)
(*  files with equal contents through equal methods, same container image"                                          *)
DirectKinds == {"exe", "lit", "ownContent", "ownMethod", "upContent", "upMethod", "image"}
(* "does not depend on where the instance lives, on component or stage names, or on time" + everything that is not   *)
(*  named by the "exactly when" (file names, spelling, back-end without image change, resources, environment)        *)
IrrelevantKinds == {"viaVar", "exeVia", "ownFlicker", "ownName", "upName", "respell", "backendOnly", "resources", "environment", "move",
                    "rename", "stageName", "stageShift", "time", "replicate", "identity"}
MissingKinds == {"ownMissing", "upMissing"}
(* changes of the bystander: irrelevant for every component of the chain (x.at = SibAt is no chain index), relevant for it *)
SiblingKinds == {"sibExe", "sibLit"}

(* a change at component `at` matters for the strong hash of c[i] iff it is a change of c[i] itself or it reaches c[i] *)
(* through directory references (the content of a produced directory is identified with the work that produced it)    *)
RECURSIVE RelevantS(_, _, _)
RelevantS(w, i, x) == \/ x.at = i /\ x.kind \in DirectKinds
                      \/ HasUp(w, i) /\ w.c[i].up.kind = "pdir" /\ RelevantS(w, i + 1, x)
(* fuzzy: contents of produced files are ignored, every change of a producer's fuzzy identity propagates downstream  *)
RECURSIVE RelevantF(_, _, _)
RelevantF(w, i, x) == \/ x.at = i /\ x.kind \in (DirectKinds \ {"upContent"})
                      \/ HasUp(w, i) /\ RelevantF(w, i + 1, x)

(* what the property does not decide for the fuzzy hash: the role of the *name* of a consumed file, and whether a   *)
(* fuzzy hash exists while a produced file is missing                                                                *)
RECURSIVE ReachesF(_, _, _)
ReachesF(w, i, x) == x.at = i \/ (HasUp(w, i) /\ ReachesF(w, i + 1, x))
FuzzyClaimed(w, i, x) == ~(x.kind \in {"ownName", "upName", "upMissing"} /\ ReachesF(w, i, x))

RECURSIVE OwnMissingFrom(_, _)    \* an input (a file no component produces) of c[i] or of anything upstream of it is missing
OwnMissingFrom(w, i) == OwnMissing(w, i) \/ (HasUp(w, i) /\ OwnMissingFrom(w, i + 1))

RECURSIVE CompleteFrom(_, _)      \* nothing that (transitively) feeds c[i] is missing
CompleteFrom(w, i) == ~OwnMissing(w, i) /\ ~UpMissing(w, i) /\ (HasUp(w, i) => CompleteFrom(w, i + 1))

Chain == 1..a.n
InPair == phase = "pair"

TypeOK == /\ phase \in {"base", "pair"} /\ a.n \in 1..MaxChain /\ b.n = a.n
          /\ asp.kind \in DirectKinds \cup IrrelevantKinds \cup MissingKinds \cup SiblingKinds \cup {"none"}
          /\ asp.kind \in SiblingKinds <=> asp.at = SibAt

(* C16, strong: equal exactly when nothing hash-relevant differs *)
StrongExactly == InPair => \A i \in Chain :
                    (Strong(a, i).def /\ Strong(b, i).def) => ((Strong(a, i) = Strong(b, i)) <=> ~RelevantS(a, i, asp))
(* C16: no hash while a referenced input is missing; a hash when everything is there *)
NoHashWhileMissing == \A i \in Chain : /\ (OwnMissing(b, i) \/ UpMissing(b, i)) => ~Strong(b, i).def
                                       /\ OwnMissing(b, i) => ~Fuzzy(b, i).def
(* the fuzzy hash stands for the whole upstream chain: none while an input of ANY upstream component is missing,      *)
(* even though the produced file the component itself reads is there                                                  *)
NoFuzzyWhileUpstreamInputMissing == \A i \in Chain : OwnMissingFrom(b, i) => ~Fuzzy(b, i).def
HashWhenComplete   == \A i \in Chain : CompleteFrom(b, i) => (Strong(b, i).def /\ Fuzzy(b, i).def)
(* C16, fuzzy *)
FuzzyIgnoresProducedContent == (InPair /\ asp.kind = "upContent") => \A i \in Chain : Fuzzy(a, i) = Fuzzy(b, i)
FuzzyFollowsProducer == InPair => \A i \in Chain :
                    (HasUp(a, i) /\ Fuzzy(a, i).def /\ Fuzzy(b, i).def /\ Fuzzy(a, i + 1) # Fuzzy(b, i + 1)) => Fuzzy(a, i) # Fuzzy(b, i)
FuzzyExactly == InPair => \A i \in Chain :
                    (Fuzzy(a, i).def /\ Fuzzy(b, i).def /\ FuzzyClaimed(a, i, asp)) => ((Fuzzy(a, i) = Fuzzy(b, i)) <=> ~RelevantF(a, i, asp))
(* the bystander: its identity moves exactly with its own definition, whatever else changes in the world *)
SiblingExactly == (InPair /\ a.sib.present) => ((SibId(a) = SibId(b)) <=> asp.kind \notin SiblingKinds)
(* the base world is complete: every pair compares with a defined hash *)
BaseComplete == \A i \in Chain : CompleteFrom(a, i)

(* witnesses for the vacuity guard: each of these must be VIOLATED by the family (the driver requires it) *)
NoAspectMatters       == InPair => \A i \in Chain : Strong(a, i) = Strong(b, i) /\ Fuzzy(a, i) = Fuzzy(b, i)
EveryAspectMatters    == (InPair /\ asp.kind # "identity") => Strong(a, 1) # Strong(b, 1)
FuzzyIsStrong         == InPair => \A i \in Chain : (Strong(a, i) = Strong(b, i)) <=> (Fuzzy(a, i) = Fuzzy(b, i))
NeverUndefined        == \A i \in Chain : Strong(b, i).def /\ Fuzzy(b, i).def

---------------------------------------------------------------------------
(* Emission of the pairs for the conformance driver *)
Rel(x, y) == IF x = y THEN "eq" ELSE "neq"
Obs(i) == [i |-> i,
           sdefA |-> Strong(a, i).def, sdefB |-> Strong(b, i).def, srel |-> Rel(Strong(a, i), Strong(b, i)),
           fdefA |-> Fuzzy(a, i).def,  fdefB |-> Fuzzy(b, i).def,  frel |-> Rel(Fuzzy(a, i), Fuzzy(b, i)),
           fclaimed |-> FuzzyClaimed(a, i, asp),
           \* definedness of the fuzzy hash is only claimed where the property decides it
           fdefClaimed |-> (OwnMissingFrom(b, i) \/ CompleteFrom(b, i))]
EmitPair == (Emit /\ InPair) => PrintT(ToJson([a |-> a, b |-> b, asp |-> asp, obs |-> [i \in Chain |-> Obs(i)],
                                                sib |-> [present |-> a.sib.present, rel |-> Rel(SibId(a), SibId(b))]]))
=============================================================================
