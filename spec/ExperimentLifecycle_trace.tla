--------------------- MODULE ExperimentLifecycle_trace ---------------------
(***************************************************************************)
(* Trace validation for ExperimentLifecycle.tla (code -> spec).            *)
(*                                                                         *)
(* harness/world_g03.py executes the deployment part of the REAL           *)
(* scripts/elaunch.py (Setup, Run, the except clauses, the finally clause) *)
(* on the deterministic world and logs one record per status-file API call *)
(* of the main thread, per program point, per action of the status monitor *)
(* thread, per component transition, per signal:                           *)
(*   <<event, s1, s2, n1, n2, mem, disk, ost, cst, cs, dn, mon>>           *)
(* mem: the in-memory Status after the step, disk: status.txt after the    *)
(* step (read back from the file), ost: Experiment._currentStage, cst:     *)
(* Controller.currentStage, cs / dn: ComponentState.state and membership   *)
(* in Controller.comp_done per component, mon: the monitor thread.         *)
(* A record is matched by  Step(event, args) /\ (these variables)' =       *)
(* logged.  Hidden: the program counter, the pending verdict, which of the *)
(* repairs the code under test contains (fix is chosen in the initial      *)
(* state, so a run is accepted if it is a behaviour of the specification   *)
(* for SOME combination -- the driver reports which).                      *)
(***************************************************************************)
EXTENDS ExperimentLifecycle, LifecycleTraceData

VARIABLES tid, l
tvars == <<vars, tid, l>>

T == Traces[tid].steps

Matches(e) ==
  /\ mem' = e[6] /\ disk' = e[7] /\ ost' = e[8] /\ cst' = e[9] /\ cs' = e[10] /\ dn' = e[11] /\ mon' = e[12]

Stutter == UNCHANGED vars

Step(e) ==
  CASE e[1] = "NewStatus" -> NewStatus(e[2])
    [] e[1] = "Write" -> e[3] = "ok" /\ Write(e[2])
    [] e[1] = "Set" -> SetField(e[2], e[3])
    [] e[1] = "SetupFailed" -> SetupFails
    [] e[1] = "EnterTry" -> EnterTry
    [] e[1] = "RestartReset" -> RestartReset
    [] e[1] = "Controller" -> CtlCreate
    [] e[1] = "Run" -> RunCall
    [] e[1] = "MonStart" -> MonStart
    [] e[1] = "SetStage" -> SetStage /\ ost' = e[4]
    [] e[1] = "Comp" -> (SkipComp(e[4], e[5]) /\ e[2] = "finished") \/ CompEnd(e[4], e[5], e[2])
    [] e[1] = "Done" -> SkipDone(e[4], e[5]) \/ EarlyMark(e[4], e[5]) \/ CompDone(e[4], e[5])
    [] e[1] = "StageInit" -> StageInit(e[4])
    [] e[1] = "RunBegin" -> RunBegin(e[4])
    [] e[1] = "RunEnd" -> RunEnd(e[4], e[2])
    [] e[1] = "Increment" -> Increment /\ ost' = e[4]
    \* Run() raised: StageFailedError out of the stage loop
    [] e[1] = "RunRaised" -> e[2] = "StageFailedError" /\ StageFailed
    [] e[1] = "RunReturned" -> RunReturned
    [] e[1] = "Signal" -> Signal
    [] e[1] = "MonKill" -> MonKill
    [] e[1] = "CleanUp" -> CleanUp
    [] e[1] = "Joined" -> Joined
    [] e[1] = "MonJoin" -> MonJoin
    [] e[1] = "Tick" -> Tick /\ (e[2] = "last" <=> mon = "cancelled") /\ (e[3] = "wrote" <=> cst # 0) /\ e[3] # "error"
    [] e[1] = "Crash" -> CleanupCrash
    [] e[1] = "Hung" -> Hang
    [] e[1] = "Exit" -> (Exit \/ (pc \in {"dead", "hung"} /\ Stutter)) /\ code' = e[4]
    [] OTHER -> FALSE

TraceInit == Init /\ tid \in 1..Len(Traces) /\ sc = Traces[tid].sc /\ l = 0

TraceNext ==
  /\ l < Len(T) /\ l' = l + 1 /\ tid' = tid
  /\ Step(T[l + 1]) /\ Matches(T[l + 1])

TraceSpec == TraceInit /\ [][TraceNext]_tvars

\* per run and per combination of repairs: how far the run was matched (register 100 * tid + combination)
FixNo == (IF fix.cur THEN 1 ELSE 0) + (IF fix.stale THEN 2 ELSE 0) + (IF fix.restart THEN 4 ELSE 0) + (IF fix.early THEN 8 ELSE 0)
Furthest == TLCSet(100 * tid + FixNo, l)
Report ==
  LET res == [t \in 1..Len(Traces) |-> [f \in 1..16 |-> TLCGet(100 * t + f - 1)]] IN
  PrintT(<<"MATCHED", res>>)
ASSUME \A t \in 1..Len(Traces) : \A f \in 0..15 : TLCSet(100 * t + f, -1)

\* action properties of ExperimentLifecycle.tla restated over tvars: evaluated on the logged real states
TFinalIsFinal == [][Done => disk' = disk]_tvars
=============================================================================
