--------------------------- MODULE Restart_trace ---------------------------
(***************************************************************************)
(* C12, direction code -> spec: validation of traces recorded from the     *)
(* real Engine / ComponentState / Controller (harness/checks/c12.py).      *)
(*                                                                         *)
(* A trace is [c |-> configuration, steps |-> <<step, ...>>], a step is    *)
(*   [act, reason, answer,            what the harness did: the event      *)
(*    code, ran, hook,                what the code answered               *)
(*    restarts, resub, alive, final]  projection of the real objects after *)
(* The generated module spec/gen/Restart_traces_<tier>.tla EXTENDS this    *)
(* one and defines the literal traces.  Every step must be a step of the   *)
(* corresponding action of Restart.tla (the actions are re-used, not       *)
(* re-written) whose primed variables equal the logged projection.  TLC    *)
(* follows all traces in one run (tid is chosen in the initial state) and  *)
(* prints for every reached position the set of C12 predicates that are    *)
(* false in the logged state (TraceEmit); the driver turns                 *)
(*   - a trace that cannot be followed to its end into "step i of the code *)
(*     is not a step of the specification",                                *)
(*   - a non-empty set into "property violated in logged state i".         *)
(* The constant Deviations is set to AllDeviations here: the traces are    *)
(* compared with the code as built, the C12 predicates say whether what    *)
(* the code did is allowed.                                                *)
(***************************************************************************)
EXTENDS Restart

CONSTANT Traces          \* sequence of traces
VARIABLES tid, pos
tvars == <<tid, pos>>

Steps(t) == Traces[t].steps

TraceInit == /\ tid \in DOMAIN Traces
             /\ pos = 0
             /\ InitWith(Traces[tid].c)

(* the action the harness performed; the hook answer only matters when the specification reaches the package hook *)
Performs(s) == CASE s.act = "Exit" -> Exit(s.reason)
                 [] s.act = "PostMortem" -> \E a \in {s.answer, NA} : PostMortem(a)
                 [] s.act = "Direct" -> \E a \in {s.answer, NA} : Direct(a)
                 [] s.act = "LateRestart" -> LateRestart(s.reason)

(* the logged projection of the real objects is the state the action leads to *)
Observed(s) == /\ restarts' = s.restarts
               /\ resub' = s.resub
               /\ (phase' = "running") = s.alive
               /\ final' = s.final
               /\ ev'.ran = s.ran
               /\ s.act # "Exit" => (ev'.code = s.code /\ ev'.hook = s.hook)

TraceNext == /\ pos < Len(Steps(tid))
             /\ Performs(Steps(tid)[pos + 1])
             /\ Observed(Steps(tid)[pos + 1])
             /\ pos' = pos + 1
             /\ tid' = tid

TraceSpec == TraceInit /\ [][TraceNext]_<<vars, tvars>>

TraceEmit == PrintT(ToJson([tid |-> tid, pos |-> pos, failing |-> Failing, dev |-> ev.dev,
                            runs |-> runs, cont |-> cont, consec |-> consec]))
=============================================================================
