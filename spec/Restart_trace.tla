--------------------------- MODULE Restart_trace ---------------------------
(***************************************************************************)
(* C12, direction code -> spec: validation of traces recorded from the     *)
(* real Engine / ComponentState / Controller (harness/checks/c12.py).      *)
(*                                                                         *)
(* A trace is [c |-> configuration, steps |-> <<step, ...>>], a step is    *)
(*   [act, reason, answer,            what the harness did: the event      *)
(*    code, ran, hook,                what the code answered               *)
(*    restarts, resub, alive, final]  projection of the real objects after *)
(* The traces are read from an ndjson file (one trace a line) in the single  *)
(* initial state; the remaining steps of the chosen trace are kept  *)
(* in the variable todo.  Every step must be a step of the                 *)
(* corresponding action of Restart.tla (the actions are re-used, not       *)
(* re-written) whose primed variables equal the logged projection.  TLC    *)
(* follows all traces in one run (tid is chosen in the initial state) and  *)
(* prints for every reached position the set of C12 predicates that are    *)
(* false in the logged state (TraceEmit); the driver turns                 *)
(*   - a trace that cannot be followed to its end into "step i of the code *)
(*     is not a step of the specification",                                *)
(*   - a non-empty set into "property violated in logged state i".         *)
(* A step of the code may follow the demanded policy or any of the named   *)
(* deviations of Restart.tla (\E D \in SUBSET AllDeviations): the trace    *)
(* specification explains the code as built as well as a repaired code,    *)
(* the C12 predicates say whether what the code did is allowed.            *)
(***************************************************************************)
EXTENDS Restart

CONSTANT TraceFile        \* absolute path of the ndjson file written by the driver
VARIABLES all,            \* the recorded traces (read once, in the initial state; dropped when a trace is chosen)
          tid,            \* which trace (0: not yet chosen)
          pos,            \* number of steps validated so far
          todo            \* the steps of the trace that are still to be explained
tvars == <<all, tid, pos, todo>>

Range(s) == {s[i] : i \in DOMAIN s}
(* JSON arrays are sequences: the two sets of a configuration are rebuilt *)
CfgOf(j) == [id |-> j.id, kind |-> j.kind, backend |-> j.backend, maxR |-> j.maxR, hookFile |-> j.hookFile,
             onDisk |-> j.onDisk, restartOn |-> Range(j.restartOn), shutdownOn |-> Range(j.shutdownOn),
             stable |-> j.stable, entry |-> j.entry, answers |-> "full", migratable |-> j.migratable, finish |-> TRUE]
NoConfig == [id |-> -1, kind |-> "normal", backend |-> "local", maxR |-> 0, hookFile |-> "empty", onDisk |-> FALSE,
             restartOn |-> {}, shutdownOn |-> {}, stable |-> TRUE, entry |-> "controller", answers |-> "full", migratable |-> FALSE, finish |-> TRUE]

(* one initial state: the file is read once *)
TraceInit == /\ all = ndJsonDeserialize(TraceFile)
             /\ tid = 0 /\ pos = 0 /\ todo = <<>>
             /\ InitWith(NoConfig)

(* choose a trace: the component of that trace in the state InitWith(its configuration) *)
Start(t) == /\ tid = 0
            /\ tid' = t /\ pos' = 0 /\ todo' = all[t].steps /\ all' = <<>>
            /\ cfg' = CfgOf(all[t].c)
            /\ UNCHANGED <<phase, last, restarts, resub, runs, launched, cont, consec, final, ev>>

(* the action the harness performed; the hook answer only matters when the specification reaches the package hook *)
Performs(s) == CASE s.act = "Exit" -> Exit(s.reason)
                 [] s.act = "PostMortem" -> \E D \in SUBSET AllDeviations : \E a \in {s.answer, NA} : PostMortemD(a, D)
                 [] s.act = "Direct" -> \E D \in SUBSET AllDeviations : \E a \in {s.answer, NA} : DirectD(a, D)
                 [] s.act = "LateRestart" -> LateRestart(s.reason)
                 [] s.act = "Finish" -> Finish(s.reason)

(* the logged projection of the real objects is the state the action leads to *)
Observed(s) == /\ restarts' = s.restarts
               /\ resub' = s.resub
               /\ (phase' = "running") = s.alive
               /\ final' = s.final
               /\ ev'.ran = s.ran
               /\ s.act # "Exit" => (ev'.code = s.code /\ ev'.hook = s.hook)

Step == /\ tid # 0 /\ todo # <<>>
        /\ Performs(Head(todo))
        /\ Observed(Head(todo))
        /\ todo' = Tail(todo)
        /\ pos' = pos + 1
        /\ UNCHANGED <<tid, all>>

TraceNext == (\E t \in DOMAIN all : Start(t)) \/ Step

TraceSpec == TraceInit /\ [][TraceNext]_<<vars, tvars>>

TraceEmit == tid # 0 => PrintT(ToJson([tid |-> tid, pos |-> pos, failing |-> Failing, dev |-> ev.dev,
                            runs |-> runs, cont |-> cont, consec |-> consec]))
=============================================================================
