---- MODULE EngineTraceData ----
EXTENDS TLC
Traces == <<>>
====
