---------------------------- MODULE ConfigCache ----------------------------
(***************************************************************************)
(* C08 -- Configuration queries always reflect the latest updates.        *)
(*                                                                         *)
(* The configuration interface of FlowIRConcrete / FlowIRExperiment-       *)
(* Configuration as a state machine: a description D (what raw() returns), *)
(* the per-platform cache of fully resolved component configurations       *)
(* (FlowIRConcrete._cache) and the dictionary the caller still holds from  *)
(* its last successful query (`handed`).                                   *)
(* One action per API call; each mutator invalidates exactly what the code *)
(* invalidates (flowir.py: get_component(return_copy=False), update_/      *)
(* delete_component, set_*_variable, get_platform_*_variables(return_copy  *)
(* =False)).  The property is stated over (D, result of a query):          *)
(*     QueryFresh   every query returns Resolve(D) -- the configuration    *)
(*                  computed from scratch from the current description     *)
(*     Coherent     every cache entry equals Resolve(D) (the inductive     *)
(*                  invariant behind QueryFresh)                           *)
(*     Private      mutating a returned configuration changes neither D    *)
(*                  nor the cache                                          *)
(*                                                                         *)
(* Values are one-character strings so that a state has a short code the   *)
(* conformance driver can decode ("-" = undefined):                        *)
(*   variable v      "-" | "1" | "2" (strings); a component variable may   *)
(*                   also be "i" = 1, "b" = True, "f" = 1.0: equal under   *)
(*                   ==, rendered "1" / "True" ("T") / "1.0" ("D")         *)
(*   command.arguments  "L" literal | "R" = %(v)s | "P" = %(replica)s      *)
(*   resourceRequest.numberProcesses  "-" absent | "1" | "2" | "R" = %(v)s *)
(*                                    | "X" = a literal that is no integer *)
(* The layers of v are: default global / default stage / platform global / *)
(* platform stage / component variables (the order of                      *)
(* get_component_variables).  Resolve below is the fragment of the layering*)
(* rules this property needs (the full rules are the subject of C04); it   *)
(* is bound to the code twice: against the live object and against a brand *)
(* new FlowIRConcrete built from raw().                                    *)
(*                                                                         *)
(*   repeatInterval     "-" absent | "0" | "5"      (workflowAttributes)    *)
(*   interpreter        "-" absent | "B" = bash     (command)               *)
(* Derived options (computed from other options, not stored by the caller): *)
(*   isRepeat        = repeatInterval not in {None, 0}; the description     *)
(*                     also STORES a copy (srep) that is refreshed only     *)
(*                     when a component is loaded / added                   *)
(*   expandArguments = "none" when an interpreter is set                    *)
(* Aliasing: update_component(c, d) and add_component(d, insert_copy=False) *)
(* store a SHALLOW copy of d: the nested sections of the stored definition  *)
(* are the caller's objects (`al`).  ReplaceSame = the caller edits a nested*)
(* section of that dictionary in place and at once submits the same object  *)
(* again with update_component.                                             *)
(* Platforms: every platform of PlatSeq outside InitPlats does not exist    *)
(* initially; set_platform_global_variable / set_platform_stage_variable    *)
(* create its scope on demand ("#" = the stage dictionary does not exist).  *)
(*                                                                         *)
(* Named deviations of the code that the design (the invariants) must not  *)
(* depend on, selected by constants:                                       *)
(*   Hits        which components' cache entries the per-component         *)
(*               invalidation of c removes.  The code built a regular      *)
(*               expression from the un-escaped component name and used    *)
(*               re.match (a prefix match): "a" also removes "ab" (harmless*)
(*               over-invalidation), "a+b" does NOT remove "a+b" (stale).  *)
(*               The design needs only  c \in Hits[c]  (SelfHit).          *)
(*   LenientPoisons  the code stored the result of a query made with       *)
(*               ignore_convert_errors=True under the same key as the      *)
(*               strict result.  FALSE = design (a lenient result is only  *)
(*               cached when no conversion error was ignored).             *)
(*   DerivedFrozen   queries that are not fully resolved (raw, nodef, prim, *)
(*               noinj) answer with the STORED isRepeat instead of the one  *)
(*               derived from the current repeatInterval.  FALSE = design.  *)
(***************************************************************************)
EXTENDS Integers, Sequences, FiniteSets, TLC, Json

CONSTANTS CompSeq,         \* sequence of component labels, e.g. <<"c1", "c2">> (names are rendered by the driver)
          StageOf,         \* [component -> stage index]
          Hits,            \* [component -> set of components whose cache entries invalidate_cache_for_component removes]
          PlatSeq,         \* sequence of platforms, the first one is "default"
          InitPlats,       \* the platforms the description mentions initially
          QueryPlats,      \* platforms queries are made for        } subsets of the platforms: small runs leave the
          MutPlats,        \* platforms the variable mutators address } on-demand platform alone
          Vals,            \* values a variable can be set to, e.g. {"1", "2"}
          SetArgVals,      \* values command.arguments can be set to (subset of {"L", "R"})
          SetNpVals,       \* values numberProcesses can be set to (subset of {"1", "2", "R"})
          RiVals,          \* values repeatInterval can be set to (subset of {"0", "5"}); {} switches SetRi/DelRi off
          IpVals,          \* values command.interpreter can be set to (subset of {"B"}); {} switches SetIp/DelIp off
          Edits,           \* in-place edits of ReplaceSame (subset of AllEdits); {} switches ReplaceSame and the tracking of `al` off
          PeekKinds,       \* calls that read the configuration without using the cache (subset of AllPeeks); {} switches Peek off
          AddHows,         \* add_component: "api" = insert_copy=True, "ref" = insert_copy=False (subset of {"api", "ref"})
          Flavours,        \* query flavours explored (subset of AllFlavours)
          Templates,       \* component templates for add_component / update_component (subset of AllTemplates)
          BaseIds,         \* which initial descriptions are explored (subset of 0..2)
          LenientPoisons,  \* see above
          DerivedFrozen,   \* see above
          HowSet,          \* call paths explored for the component setters (subset of {"api", "conf", "ref"}); they differ
          HowDel,          \* only in `last`, so the design runs use {"api"} and the emission runs all of them
          Emit             \* TRUE: NextE prints every transition as JSON for the conformance driver

U == "-"
Comps  == {CompSeq[i] : i \in 1..Len(CompSeq)}
Plats  == {PlatSeq[i] : i \in 1..Len(PlatSeq)}
Stages == {StageOf[c] : c \in Comps}
Default == "default"
ValsU == Vals \cup {U}

ASSUME PlatSeq[1] = Default
SelfHit == \A c \in Comps : c \in Hits[c]      \* what a correct invalidation needs; checked by the driver per world

AllFlavours == {"full", "raw", "nodef", "rawnodef", "prim", "noinj", "lenient"}
(* keyword arguments of get_component_configuration per flavour *)
Raw(f)     == f \in {"raw", "rawnodef"}             \* raw=True
Incl(f)    == f \notin {"nodef", "rawnodef"}        \* include_default=True
Prim(f)    == f = "prim"                            \* is_primitive=True
Inj(f)     == f # "noinj"                           \* inject_missing_fields=True
Lenient(f) == f = "lenient"                         \* ignore_convert_errors=True
(* need_fully_resolved_flowir of the code: the only flavours that read / fill the cache *)
UsesCache(f) == ~Raw(f) /\ Incl(f) /\ ~Prim(f) /\ Inj(f)

AllTemplates == {"T1", "T2", "T3", "T4", "T5", "T6", "T7", "T8", "T9"}
Tpl(cv, args, np, ri, ip) == [present |-> TRUE, cv |-> cv, args |-> args, np |-> np, ri |-> ri, srep |-> U, ip |-> ip, al |-> FALSE]
Template(t) == CASE t = "T1" -> Tpl(U,   "R", U,   U,   U)
                 [] t = "T2" -> Tpl("2", "L", "R", U,   U)
                 [] t = "T3" -> Tpl("1", "R", "2", U,   U)
                 [] t = "T4" -> Tpl(U,   "P", U,   U,   U)     \* needs %(replica)s
                 [] t = "T5" -> Tpl(U,   "L", "X", U,   U)     \* numberProcesses not an integer
                 [] t = "T6" -> Tpl(U,   "L", U,   "5", "B")   \* a repeating component run through an interpreter
                 [] t = "T7" -> Tpl("i", "R", U,   U,   U)     \* T7, T8, T9 are equal under == : v = 1, True, 1.0
                 [] t = "T8" -> Tpl("b", "R", U,   U,   U)
                 [] t = "T9" -> Tpl("f", "R", U,   U,   U)
Absent == [present |-> FALSE, cv |-> U, args |-> "L", np |-> U, ri |-> U, srep |-> U, ip |-> U, al |-> FALSE]
TrackAlias == Edits # {}
AllEdits == {"aL", "aR", "v1", "v2", "v-"}      \* command.arguments := literal / %(v)s ; variables.v := "1" / "2" / deleted
(* how string interpolation renders a value *)
Str(x) == CASE x = "i" -> "1" [] x = "b" -> "T" [] x = "f" -> "D" [] OTHER -> x

(* isRepeat as inject_default_values_to_component derives it; Norm = what loading / add_component do to a definition *)
Derive(ri) == IF ri = "5" THEN "T" ELSE "F"
Norm(cc)   == IF cc.ri # U THEN [cc EXCEPT !.srep = Derive(cc.ri)] ELSE cc

VARIABLES D,       \* [kn : [Plats -> BOOLEAN] (platform exists), gv : [Plats -> values], sv : [Plats -> [Stages -> values or "#"]],
                   \*  comp : [Comps -> component record]]
          cache,   \* partial function <<component, platform>> -> result record (FlowIRConcrete._cache)
          handed,  \* which dictionary the caller still holds from the last successful query: "hit" (answered from the
                   \* cache), "miss" (resolved and stored), "other" (resolved, not stored), or "none"
          last     \* the last call and what it returned (history variable, hidden by the VIEW)
vars == <<D, cache, handed, last>>
View == <<D, cache, handed>>
DesignView == <<D, cache>>     \* handed only enables MutateReturned, which changes neither D nor cache

Keys == Comps \X Plats
NoDict == "#"
Ok(v, a, n, ri, rep, xa) == [kind |-> "ok", v |-> v, args |-> a, np |-> n, ri |-> ri, rep |-> rep, xa |-> xa]
Err(k)      == [kind |-> k, v |-> U, args |-> U, np |-> U, ri |-> U, rep |-> U, xa |-> U]
Done        == Err("done")          \* a mutator that returned normally
NoCache     == [k \in {} |-> Done]

---------------------------------------------------------------------------
(* Resolve: the configuration computed from scratch from the description (the oracle).                     *)
(* Layering of get_component_variables, highest priority first.                                             *)
Val(x) == IF x = NoDict THEN U ELSE x
Layered(DD, c, p, incl) ==
  LET st == StageOf[c] IN
  IF DD.comp[c].cv # U THEN DD.comp[c].cv
  ELSE IF incl /\ p # Default /\ Val(DD.sv[p][st]) # U THEN DD.sv[p][st]
  ELSE IF incl /\ p # Default /\ DD.gv[p] # U THEN DD.gv[p]
  ELSE IF incl /\ Val(DD.sv[Default][st]) # U THEN DD.sv[Default][st]
  ELSE IF incl THEN DD.gv[Default]
  ELSE U

(* frozen = TRUE: the stored isRepeat is used as it is (what the code did); FALSE: as a freshly loaded description has it *)
ResolveWith(DD, c, p, f, frozen) ==
  LET cc  == DD.comp[c]
      vv  == Layered(DD, c, p, Incl(f))
      npI == IF cc.np = U THEN (IF Inj(f) THEN "1" ELSE U) ELSE cc.np      \* default numberProcesses is 1
      st  == IF frozen THEN cc.srep ELSE Norm(cc).srep
      rep == IF UsesCache(f) THEN (IF cc.ri # U THEN Derive(cc.ri) ELSE "F")      \* derived at query time from the merged options
             ELSE IF st # U THEN st ELSE IF Inj(f) THEN "F" ELSE U              \* the component's own (loaded) value
      xa  == IF cc.ip # U THEN "N" ELSE IF Inj(f) THEN "D" ELSE U               \* interpreters never expand their arguments
  IN IF ~cc.present THEN Err("ComponentUnknown")
     ELSE IF ~DD.kn[p] THEN Err("PlatformUnknown")
     ELSE IF Raw(f) THEN Ok(vv, cc.args, npI, cc.ri, rep, xa)
     ELSE IF (cc.args = "R" \/ cc.np = "R") /\ vv = U THEN Err("VariableUnknown")
     ELSE IF cc.args = "P" /\ ~Prim(f) THEN Err("VariableUnknown")           \* replica is only tolerated for primitive graphs
     ELSE IF (cc.np = "X" \/ (cc.np = "R" /\ Str(vv) \in {"T", "D"})) /\ ~Lenient(f) THEN Err("ConvertError")   \* int("True"), int("1.0")
     ELSE Ok(vv, IF cc.args = "R" THEN Str(vv) ELSE cc.args, IF cc.np = "R" THEN Str(vv) ELSE npI, cc.ri, rep, xa)

Resolve(DD, c, p, f) == ResolveWith(DD, c, p, f, FALSE)          \* the oracle
Answer(DD, c, p, f)  == ResolveWith(DD, c, p, f, DerivedFrozen)  \* what the implementation computes on a cache miss

(* does a lenient query of c return something a strict one would not? *)
LenientDiffers(DD, c, p) == Resolve(DD, c, p, "lenient") # Resolve(DD, c, p, "full")

---------------------------------------------------------------------------
Base(b) ==
  LET none == [p \in Plats |-> U]
      nost == [p \in Plats |-> [s \in Stages |-> IF p \in InitPlats THEN U ELSE NoDict]]
      known == [p \in Plats |-> p \in InitPlats]
      c1 == CompSeq[1]
  IN CASE b = 0 -> [kn |-> known, gv |-> [none EXCEPT ![Default] = "1"], sv |-> nost,
                    comp |-> [c \in Comps |-> Template("T1")]]
       [] b = 1 -> [kn |-> known, gv |-> [p \in Plats |-> IF p \in InitPlats THEN "1" ELSE U],
                    sv |-> [p \in Plats |-> [s \in Stages |-> IF p = Default THEN "2" ELSE nost[p][s]]],
                    comp |-> [c \in Comps |-> IF c = c1 THEN Template("T3") ELSE Absent]]
       [] b = 2 -> [kn |-> known, gv |-> none, sv |-> nost,
                    comp |-> [c \in Comps |-> IF c = c1 THEN Norm([Template("T3") EXCEPT !.np = "R", !.ri = "5"])
                                               ELSE [Template("T5") EXCEPT !.ip = "B"]]]

Call(act, c, p, st, x, how, hit, ret) ==
  [act |-> act, c |-> c, p |-> p, st |-> st, x |-> x, how |-> how, hit |-> hit, ret |-> ret]

Init == /\ \E b \in BaseIds : D = Base(b)
        /\ cache = NoCache
        /\ handed = "none"
        /\ last = Call("Init", U, U, -1, U, U, FALSE, Done)

(* cache after the per-component invalidation / after clear() *)
InvalidateComp(c) == [k \in {kk \in DOMAIN cache : kk[1] \notin Hits[c]} |-> cache[k]]
Store(k, r) == [kk \in (DOMAIN cache) \cup {k} |-> IF kk = k THEN r ELSE cache[kk]]

---------------------------------------------------------------------------
(* get_component_configuration(c, platform=p, <flavour>)  /  configurationForNode *)
Query(c, p, f) ==
  LET k   == <<c, p>>
      hit == UsesCache(f) /\ k \in DOMAIN cache           \* the lookup precedes everything else, even "does c exist"
      ret == IF hit THEN cache[k] ELSE Answer(D, c, p, f)
      fill == /\ UsesCache(f) /\ ~hit /\ ret.kind = "ok"
              /\ (Lenient(f) /\ ~LenientPoisons) => ~LenientDiffers(D, c, p)
  IN /\ cache' = IF fill THEN Store(k, ret) ELSE cache
     /\ handed' = IF ret.kind # "ok" THEN handed ELSE IF hit THEN "hit" ELSE IF fill THEN "miss" ELSE "other"
     /\ last' = Call("Query", c, p, -1, f, U, hit, ret)
     /\ UNCHANGED D

(* Component-scoped mutators go through get_component(c, return_copy=False): unknown component -> error before    *)
(* anything happens; otherwise the component's entries are invalidated first, then the change is applied (and may   *)
(* still fail, e.g. deleting a variable that is not there).                                                          *)
CompMutator(act, c, x, how, ok, newrec, errkind) ==
  IF ~D.comp[c].present
  THEN /\ UNCHANGED <<D, cache, handed>>
       /\ last' = Call(act, c, U, -1, x, how, FALSE, Err("ComponentUnknown"))
  ELSE /\ cache' = InvalidateComp(c)
       /\ D' = IF ok THEN [D EXCEPT !.comp[c] = newrec] ELSE D
       /\ last' = Call(act, c, U, -1, x, how, FALSE, IF ok THEN Done ELSE Err(errkind))
       /\ UNCHANGED handed

(* how: "api" = FlowIRConcrete.set_component_variable / set_component_option, "conf" = setOptionForNode,            *)
(*      "ref" = get_component(return_copy=False) followed at once by an in-place change of the returned dictionary  *)
SetCompVar(c, x, how) == CompMutator("SetCompVar", c, x, how, TRUE, [D.comp[c] EXCEPT !.cv = x], U)
DelCompVar(c, how)    == CompMutator("DelCompVar", c, U, how, D.comp[c].cv # U, [D.comp[c] EXCEPT !.cv = U], "VariableUnknown")
SetArgs(c, x, how)    == CompMutator("SetArgs", c, x, how, TRUE, [D.comp[c] EXCEPT !.args = x], U)
SetNp(c, x, how)      == CompMutator("SetNp", c, x, how, TRUE, [D.comp[c] EXCEPT !.np = x], U)
DelNp(c, how)         == CompMutator("DelNp", c, U, how, D.comp[c].np # U, [D.comp[c] EXCEPT !.np = U], "KeyError")
(* #workflowAttributes.repeatInterval is the source of the derived isRepeat: the stored copy (srep) is NOT refreshed *)
SetRi(c, x, how)      == CompMutator("SetRi", c, x, how, TRUE, [D.comp[c] EXCEPT !.ri = x], U)
DelRi(c, how)         == CompMutator("DelRi", c, U, how, D.comp[c].ri # U, [D.comp[c] EXCEPT !.ri = U], "KeyError")
(* #command.interpreter is the source of the derived expandArguments *)
SetIp(c, x, how)      == CompMutator("SetIp", c, x, how, TRUE, [D.comp[c] EXCEPT !.ip = x], U)
DelIp(c, how)         == CompMutator("DelIp", c, U, how, D.comp[c].ip # U, [D.comp[c] EXCEPT !.ip = U], "KeyError")
(* update_component(c, new definition): the definition is stored as given (no derived fields are added) *)
ReplaceComp(c, t)     == CompMutator("ReplaceComp", c, t, "api", TRUE, [Template(t) EXCEPT !.al = TrackAlias], U)

(* the caller edits a nested section of the dictionary the stored definition shares with it, then update_component(c, same object) *)
Edited(cc, e) == CASE e = "aL" -> [cc EXCEPT !.args = "L"] [] e = "aR" -> [cc EXCEPT !.args = "R"]
                   [] e = "v1" -> [cc EXCEPT !.cv = "1"] [] e = "v2" -> [cc EXCEPT !.cv = "2"] [] e = "v-" -> [cc EXCEPT !.cv = U]
ReplaceSame(c, e) ==
  /\ D.comp[c].present /\ D.comp[c].al
  /\ cache' = InvalidateComp(c)
  /\ D' = [D EXCEPT !.comp[c] = Edited(D.comp[c], e)]
  /\ last' = Call("ReplaceSame", c, U, -1, e, "api", FALSE, Done)
  /\ UNCHANGED handed

(* delete_component(c): the component's entries are invalidated *)
DeleteComp(c) ==
  IF ~D.comp[c].present
  THEN /\ UNCHANGED <<D, cache, handed>>
       /\ last' = Call("DeleteComp", c, U, -1, U, "api", FALSE, Err("ComponentUnknown"))
  ELSE /\ cache' = InvalidateComp(c)
       /\ D' = [D EXCEPT !.comp[c] = Absent]
       /\ last' = Call("DeleteComp", c, U, -1, U, "api", FALSE, Done)
       /\ UNCHANGED handed

(* add_component(definition): no invalidation in the code -- correct only because no entry of an absent component   *)
(* can exist (DeleteComp removed it, a failed query is never stored): TLC checks exactly this.                       *)
AddComp(c, t, how) ==
  IF D.comp[c].present
  THEN /\ UNCHANGED <<D, cache, handed>>
       /\ last' = Call("AddComp", c, U, -1, t, how, FALSE, Err("ComponentExists"))
  ELSE /\ D' = [D EXCEPT !.comp[c] = [Norm(Template(t)) EXCEPT !.al = (how = "ref" /\ TrackAlias)]]   \* isRepeat is derived for the stored definition
       /\ last' = Call("AddComp", c, U, -1, t, how, FALSE, Done)
       /\ UNCHANGED <<cache, handed>>

(* Workflow-scoped mutators clear the whole cache.                                                                   *)
(* how: "api" = set_global_variable / set_stage_variable / set_platform_global_variable / set_platform_stage_variable *)
(*      "ref" = get_platform_global_variables / get_platform_stage_variables / get_default_*_variables with           *)
(*              return_copy=False followed at once by an in-place assignment or deletion (x = "-")                    *)
(* A platform that does not exist yet: the set_* calls create its scope on demand; the return_copy=False getters    *)
(* raise FlowIRPlatformUnknown (get_platform_stage_variables only after it has cleared the cache).  A stage            *)
(* dictionary that does not exist ("#") is handed out as a detached empty dictionary: the in-place change is lost.     *)
SetGlobalVar(p, x, how, act) ==
  IF how = "ref" /\ ~D.kn[p]
  THEN /\ UNCHANGED <<D, cache, handed>>
       /\ last' = Call(act, U, p, -1, x, how, FALSE, Err("PlatformUnknown"))
  ELSE /\ D' = [D EXCEPT !.gv[p] = x, !.kn[p] = TRUE]
       /\ cache' = NoCache
       /\ last' = Call(act, U, p, -1, x, how, FALSE, Done)
       /\ UNCHANGED handed
SetStageVarOf(p, s, x, how, act) ==
  /\ cache' = NoCache
  /\ UNCHANGED handed
  /\ IF how = "ref" /\ ~D.kn[p]
     THEN D' = D /\ last' = Call(act, U, p, s, x, how, FALSE, Err("PlatformUnknown"))
     ELSE IF how = "ref" /\ D.sv[p][s] = NoDict
     THEN D' = D /\ last' = Call(act, U, p, s, x, how, FALSE, Done)
     ELSE D' = [D EXCEPT !.sv[p][s] = x, !.kn[p] = TRUE] /\ last' = Call(act, U, p, s, x, how, FALSE, Done)

SetGlobal(x)           == SetGlobalVar(Default, x, "api", "SetGlobal")             \* set_global_variable
SetStageVar(s, x)      == SetStageVarOf(Default, s, x, "api", "SetStageVar")       \* set_stage_variable
SetPlatformGlobal(p, x)   == SetGlobalVar(p, x, "api", "SetPlatformGlobal")        \* set_platform_global_variable
SetPlatformStage(p, s, x) == SetStageVarOf(p, s, x, "api", "SetPlatformStage")     \* set_platform_stage_variable
InPlaceGlobal(p, x)    == SetGlobalVar(p, x, "ref", "InPlaceGlobal")
InPlaceStage(p, s, x)  == SetStageVarOf(p, s, x, "ref", "InPlaceStage")

(* Calls that read the configuration of c (or of every component) WITHOUT the cache: get_component_variable_references,   *)
(* conf.getOptionForNode, conf.variablesForNode, validate(), instance(), replicate().  Like the query flavours that bypass  *)
(* the cache they must leave the validity of the cache unchanged: nothing changes in the model (what they return is not     *)
(* modelled); the binding checks that every later cacheable query still equals the from-scratch resolution.                 *)
AllPeeks == {"varrefs", "getopt", "nodevars", "validate", "instance", "replicate"}
Peek(c, k) ==
  /\ UNCHANGED <<D, cache, handed>>
  /\ last' = Call("Peek", c, U, -1, k, U, FALSE, Done)

(* the caller scribbles over the dictionary it received from the last successful query *)
MutateReturned ==
  /\ handed # "none"
  /\ handed' = "none"
  /\ last' = Call("MutateReturned", U, U, -1, U, U, FALSE, Done)
  /\ UNCHANGED <<D, cache>>

ASSUME HowSet \subseteq {"api", "conf", "ref"} /\ HowDel \subseteq {"api", "conf"}
ASSUME InitPlats \subseteq Plats /\ Default \in InitPlats /\ QueryPlats \subseteq Plats /\ MutPlats \subseteq Plats

Next ==
  \/ \E c \in Comps, p \in QueryPlats, f \in Flavours : Query(c, p, f)
  \/ \E c \in Comps, x \in Vals, h \in HowSet : SetCompVar(c, x, h)
  \/ \E c \in Comps, h \in HowDel : DelCompVar(c, h)
  \/ \E c \in Comps, x \in SetArgVals, h \in HowSet : SetArgs(c, x, h)
  \/ \E c \in Comps, x \in SetNpVals, h \in HowSet : SetNp(c, x, h)
  \/ \E c \in Comps, h \in HowDel : DelNp(c, h)
  \/ \E c \in Comps, x \in RiVals, h \in HowSet : SetRi(c, x, h)
  \/ \E c \in Comps, h \in HowDel : RiVals # {} /\ DelRi(c, h)
  \/ \E c \in Comps, x \in IpVals, h \in HowSet : SetIp(c, x, h)
  \/ \E c \in Comps, h \in HowDel : IpVals # {} /\ DelIp(c, h)
  \/ \E x \in Vals : SetGlobal(x)
  \/ \E s \in Stages, x \in Vals : SetStageVar(s, x)
  \/ \E p \in MutPlats, x \in Vals : SetPlatformGlobal(p, x)
  \/ \E p \in MutPlats, s \in Stages, x \in Vals : SetPlatformStage(p, s, x)
  \/ \E p \in MutPlats, x \in ValsU : InPlaceGlobal(p, x)
  \/ \E p \in MutPlats, s \in Stages, x \in ValsU : InPlaceStage(p, s, x)
  \/ \E c \in Comps, t \in Templates, h \in AddHows : AddComp(c, t, h)
  \/ \E c \in Comps, t \in Templates : ReplaceComp(c, t)
  \/ \E c \in Comps, e \in Edits : ReplaceSame(c, e)
  \/ \E c \in Comps, k \in PeekKinds : Peek(c, k)
  \/ \E c \in Comps : DeleteComp(c)
  \/ MutateReturned

Spec == Init /\ [][Next]_vars

---------------------------------------------------------------------------
(* The property *)
AllValsU == {"1", "2", U}
TypeOK == /\ D.kn \in [Plats -> BOOLEAN] /\ \A p \in InitPlats : D.kn[p]
          /\ D.gv \in [Plats -> AllValsU]
          /\ D.sv \in [Plats -> [Stages -> AllValsU \cup {NoDict}]]
          /\ \A p \in Plats : ~D.kn[p] => (D.gv[p] = U /\ \A s \in Stages : D.sv[p][s] = NoDict)
          /\ \A c \in Comps : /\ D.comp[c].cv \in AllValsU \cup {"i", "b", "f"} /\ D.comp[c].args \in {"L", "R", "P"}
                              /\ D.comp[c].np \in AllValsU \cup {"R", "X"}
                              /\ D.comp[c].ri \in {U, "0", "5"} /\ D.comp[c].srep \in {U, "T", "F"} /\ D.comp[c].ip \in {U, "B"}
                              /\ (~D.comp[c].present => D.comp[c] = Absent)
          /\ DOMAIN cache \subseteq Keys
          /\ handed \in {"none", "hit", "miss", "other"}

(* every cache entry is what a from-scratch resolution of the current description gives *)
Coherent == \A k \in DOMAIN cache : cache[k] = Resolve(D, k[1], k[2], "full")

(* every query returns the from-scratch result (this is the statement of C08; an action property because `last` is  *)
(* hidden by the VIEW: TLC evaluates action properties on every transition, also into states it has already seen)    *)
QueryFreshStep == last'.act = "Query" => last'.ret = Resolve(D', last'.c, last'.p, last'.x)
QueryFresh == [][QueryFreshStep]_vars

(* a returned configuration is a private copy *)
PrivateStep == last'.act = "MutateReturned" => (D' = D /\ cache' = cache)
Private == [][PrivateStep]_vars

(* queries do not change the description *)
QueryPure == [][last'.act = "Query" => D' = D]_vars
(* calls that bypass the cache change nothing: a non-cacheable query or a Peek leaves D and the cache as they are *)
BypassPure == [][(last'.act = "Peek" \/ (last'.act = "Query" /\ ~UsesCache(last'.x))) => (D' = D /\ cache' = cache)]_vars

(* vacuity witnesses: expected to be violated *)
NeverHit      == ~(last.act = "Query" /\ last.hit)
NeverErrQuery == ~(last.act = "Query" /\ last.ret.kind # "ok")
NeverFull     == Cardinality(DOMAIN cache) < Cardinality(Comps \X (QueryPlats \cap InitPlats))

---------------------------------------------------------------------------
(* State codes and emission for the conformance driver *)
RECURSIVE Cat(_)
Cat(ss) == IF ss = <<>> THEN "" ELSE Head(ss) \o Cat(Tail(ss))
StageSeq == LET RECURSIVE Sorted(_)
                Sorted(S) == IF S = {} THEN <<>>
                             ELSE LET m == CHOOSE x \in S : \A y \in S : x <= y IN <<m>> \o Sorted(S \ {m})
            IN Sorted(Stages)

CodeOf(DD, ca, ha) ==
  Cat([i \in 1..Len(PlatSeq) |-> (IF DD.kn[PlatSeq[i]] THEN "K" ELSE U) \o DD.gv[PlatSeq[i]]
                                  \o Cat([j \in 1..Len(StageSeq) |-> DD.sv[PlatSeq[i]][StageSeq[j]]])])
  \o "|" \o
  Cat([i \in 1..Len(CompSeq) |-> LET cc == DD.comp[CompSeq[i]] IN (IF cc.present THEN "P" ELSE "A") \o cc.cv \o cc.args \o cc.np
                                                                             \o cc.ri \o cc.srep \o cc.ip \o (IF cc.al THEN "a" ELSE U)])
  \o "|" \o
  Cat([i \in 1..Len(CompSeq) |-> Cat([j \in 1..Len(PlatSeq) |-> IF <<CompSeq[i], PlatSeq[j]>> \in DOMAIN ca THEN "1" ELSE "0"])])
  \o "|" \o (CASE ha = "none" -> "N" [] ha = "hit" -> "H" [] ha = "miss" -> "M" [] ha = "other" -> "O")

(* exhaustive mode: one line per transition *)
EmitEdge == Emit => PrintT(ToJson([f |-> CodeOf(D, cache, handed), a |-> last', t |-> CodeOf(D', cache', handed')]))
NextE == Next /\ EmitEdge
SpecE == Init /\ [][NextE]_vars

(* simulation mode: one line per state of the behaviour (level 1 = a new behaviour) *)
EmitState == Emit => PrintT(ToJson([l |-> TLCGet("level"), a |-> last, t |-> CodeOf(D, cache, handed)]))

(* breadth-first exploration up to a depth *)
CONSTANT MaxLevel
LevelBound == TLCGet("level") <= MaxLevel
=============================================================================
