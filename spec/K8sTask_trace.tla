--------------------------- MODULE K8sTask_trace ---------------------------
(***************************************************************************)
(* Trace validation for K8sTask.tla (code -> spec).                        *)
(*                                                                         *)
(* harness/checks/g06.py drives the REAL NativeScheduledTask over the fake *)
(* cluster of harness/world_g06.py with seeded random choices (what the    *)
(* cluster does, when the polling interval fires and what the API server   *)
(* does to the requests of that poll, when kill() / terminate() / ^C       *)
(* arrive, when wait() is tried) and logs one record per step: the event,  *)
(* the script, and everything that can be seen afterwards -- the cluster,  *)
(* the HTTP requests of the step, what escaped from the call, the answers  *)
(* of isAlive / returncode / exitReason / status and the task's memory.    *)
(* Nothing of the specification's task state is hidden, so TLC checks that *)
(* every recorded step is exactly the step the specification computes.     *)
(* The cluster is the environment: here it may jump to ANY recorded        *)
(* situation (EnvTo), not only along the scenarios of the design models.   *)
(* Many runs are validated per TLC invocation (tid); the furthest matched  *)
(* step per run is kept in a TLC register; the POSTCONDITION lists the     *)
(* runs that were not matched to their end.                                *)
(***************************************************************************)
EXTENDS K8sTask, K8sTaskTraceData

(* K8sTaskTraceData (generated):  Traces == << [steps |-> << step, ... >>], ... >>                                        *)

VARIABLES tid, l
tv == <<vars, tid, l>>

TR == Traces[tid].steps

ClOf(j, ps) == Note([cl EXCEPT !.job = j, !.pods = ps])
ScriptOf(e) == [from |-> e.from, kind |-> e.kind, midn |-> e.midn, midcl |-> ClOf(e.midjob, e.midpods)]

EnvTo(j, ps) ==
  /\ created
  /\ cl' = ClOf(j, ps)
  /\ obs' = [calls |-> <<>>, raised |-> "none"]
  /\ UNCHANGED <<tvars, cnt>>

Step(e) ==
  CASE e.ev = "Create" -> Create(e.gc, e.archive, e.cache, e.kind)
    [] e.ev = "Tick" -> Tick(ScriptOf(e))
    [] e.ev = "Kill" -> Kill(ScriptOf(e))
    [] e.ev = "Interrupt" -> Interrupt(ScriptOf(e))
    [] e.ev = "WaitPeek" -> WaitPeek
    [] e.ev = "Env" -> EnvTo(e.job, e.pods)
    [] OTHER -> FALSE

Matches(e) ==
  /\ cl'.job = e.job /\ cl'.pods = e.pods /\ created' = e.created
  /\ obs'.calls = e.calls /\ obs'.raised = e.raised
  /\ created' => /\ last' = T(e.st, e.rs, e.rc)
                 /\ started' = e.started /\ pull' = e.pull /\ errs' = e.errs /\ age' = e.age /\ off' = e.off
                 /\ cached' = e.cached /\ closed' = e.closed /\ done' = e.done /\ terminated' = e.terminated /\ called' = e.called /\ req' = e.req
                 /\ archived' = e.archived /\ ndel' = e.ndel
                 /\ Pub' = [alive |-> e.alive, rc |-> e.prc, reason |-> e.reason, status |-> e.status]

TraceInit == InitRun /\ tid \in 1..Len(Traces) /\ l = 0

TraceNext ==
  /\ l < Len(TR) /\ l' = l + 1 /\ tid' = tid
  /\ Step(TR[l + 1]) /\ Matches(TR[l + 1])
  /\ UNCHANGED <<case, res>>

TraceSpec == TraceInit /\ [][TraceNext]_tv

Furthest == TLCSet(tid, l)
AllAccepted ==
  LET bad == {t \in 1..Len(Traces) : TLCGet(t) # Len(Traces[t].steps)} IN
  \/ bad = {}
  \/ PrintT(<<"REJECTED", [t \in bad |-> TLCGet(t)]>>) /\ FALSE

(* the action properties of the design, restated over tv: evaluated along the matched behaviours = on the logged real states *)
TFinalStaysFinal == [][Final(last.st) => Final(last'.st)]_tv
TDeadStaysDead == [][~IsAlive => (~IsAlive' /\ last' = last)]_tv
TVerdictStable == [][~IsAlive => (ExitReason' = ExitReason /\ RetCode' = RetCode)]_tv
TQuietWhenOver == [][(done /\ terminated) => obs'.calls = <<>>]_tv
TForwardOnly == [][Rank(last'.st) >= Rank(last.st)]_tv
=============================================================================
