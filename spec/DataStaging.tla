----------------------------- MODULE DataStaging -----------------------------
(***************************************************************************)
(* G07 -- what a component finds in its working directory when it starts,  *)
(* and what happens to it on restart.                                      *)
(*                                                                         *)
(* Code: experiment.model.data.StageReference / Job.stageIn,               *)
(* experiment.model.graph.DataReference.resolve,                           *)
(* experiment.model.storage.WorkingDirectory (inputs / updateInputs),      *)
(* experiment.runtime.workflow.ComponentState.stageIn (which missing       *)
(* references are tolerated), experiment.runtime.control.Controller        *)
(* .finalize_submit_components (stage-in, then launch) and elaunch -r      *)
(* [--restageData] (a new Experiment object on the old instance directory).*)
(*                                                                         *)
(* The world is an abstract file system.  LOCATIONS are the things a       *)
(* reference can name (basename = the name it is staged under):            *)
(*    in  input/a        da  data/a      ap app/a    apd app/d             *)
(*                       (app: an application-dependency folder)           *)
(*    pa  stage0.p/a     pd  stage0.p/d  pp stage0.p (the whole directory) *)
(*    pl  stage0.p/l  a RELATIVE symbolic link  l -> a  in p's directory   *)
(*    pm  stage0.p/m  an ABSOLUTE symbolic link m -> <q>/a                 *)
(*    pt  stage0.p/t.tar an archive with the members a and d/a             *)
(*    pg  stage0.p/a*    a glob (matches p/a)                              *)
(*    qa  stage0.q/a     qd  stage0.q/d  (a second producer: collisions)   *)
(*    sa  stage1.s/a     a producer in the consumer's OWN stage            *)
(*    wa  stage0.w/a     w is the PLACEHOLDER of a looped component (a     *)
(*                       DoWhile document): the reference names the file a *)
(*                       of its LATEST iteration (w0 = stage0.0#w/a, w1 =  *)
(*                       stage0.1#w/a); :loopref / :loopoutput name the    *)
(*                       file of EVERY iteration and stage nothing         *)
(* A location is none | file(c) | dir(c) (a directory holding one file `a` *)
(* with content c) | link(to).  Contents are numbers from one counter      *)
(* (tick): every write creates a new one, so that "the content the source  *)
(* had at stage-in time" is visible.  The consumer c (stage 1) has a list  *)
(* of references [m: method, l: location]; its working directory `wd` is a *)
(* set of entries [p: path, k: file|dir|link, c, to].                      *)
(*                                                                         *)
(* Actions: Begin / Step / End = Job.stageIn reference by reference in the *)
(* order the code uses (direct references first, then component            *)
(* references, then updateInputs, then the :copyout references); Mut = a   *)
(* producer (or the user) changes a source; Write = the consumer's task    *)
(* writes into its working directory (open(.., "w"): through links);       *)
(* Iterate = the loop gets its next iteration (the placeholder moves on);  *)
(* Restart(restage) = elaunch -r on the instance: new Job / new            *)
(* JobWorkingDirectory, stage-in only with --restageData.                  *)
(*                                                                         *)
(* Two findings of the code are switches (FALSE = the code as found):      *)
(*   FixSkip     a tolerated missing reference (any reference of a         *)
(*               repeating component; a reference to a producer of the     *)
(*               same stage) aborts Job.stageIn at that reference: the     *)
(*               references after it are never staged, inputs are not      *)
(*               recorded, :copyout is skipped -- and the component is     *)
(*               launched.  TRUE: the remaining references are staged and  *)
(*               the error is raised at the end.                           *)
(*   FixRestage  staging over what an earlier stage-in left (restart with  *)
(*               --restageData, or stageIn twice) fails with EEXIST for    *)
(*               every :link and every directory :copy, and with a bare    *)
(*               OSError for a migrated component.  TRUE: a link that is   *)
(*               already the right one is kept, a directory is refreshed   *)
(*               in place (nothing else in it is removed).                 *)
(* Named deviations (the code does it, a stronger promise fails; each has  *)
(* a TLC witness run by the driver; see the end of the module):            *)
(* GlobLiteral, ToleratedMissing, HalfStagedOnError, CopyKeepsSymlinks,    *)
(* RestartOutputsBecomeInputs, CopyoutBecomesInput, LinkWriteThrough.      *)
(***************************************************************************)
EXTENDS Integers, Sequences, FiniteSets, TLC, Json

CONSTANTS
    M1, L1, M2, L2, M3, L3,   \* reference lists explored: position i has a method of Mi and a location of Li
    Lens,                     \* allowed lengths of the list (subset of 1..3)
    Shape,                    \* "any" | "collide" (two references staging the same name) | "distinct"
    Reps,                     \* subset of BOOLEAN: is the consumer a repeating component
    Mig,                      \* BOOLEAN: the consumer is a migrated component (its only reference is pp:link)
    AltKinds,                 \* subset of {"none", "file", "dir"}: kinds a referenced location may have besides its natural one
    WithLinks,                \* BOOLEAN: p's directory holds the symbolic links l and m
    MutLocs, MutHows,         \* Mut(l, how): l in MutLocs, how in MutHows (subset of {"mod", "rm", "mkfile", "mkdir"})
    WriteTargets,             \* Write(t): subset of {"o", "a", "d/a", "d/o", "l", "p/a", "p/l", "p/m"}
    MaxMut, MaxWrite, MaxRestart, MaxAgain, MaxEvents,
    Restages,                 \* subset of BOOLEAN: values of --restageData explored
    Iterates,                 \* BOOLEAN: the loop behind the placeholder w may get a second iteration
    FixSkip, FixRestage,      \* the two findings (FALSE = code as found)
    GlobLiteral,              \* TRUE = code as found: a glob is staged literally, i.e. never exists
    Emit                      \* print every state (history + projection) for the conformance driver

Locs == {"in", "da", "ap", "apd", "pa", "pd", "pl", "pm", "pt", "pp", "pg", "qa", "qd", "sa", "wa", "w0", "w1"}
Methods == {"copy", "link", "ref", "copyout", "extract", "output", "loopref", "loopoutput"}
PathMethods == {"copy", "link", "ref", "copyout", "extract", "loopref", "loopoutput"}      \* DataReference.pathMethods
Virtual == {"pp", "pg", "wa"}                            \* locations that are no directory entry of their own

Direct(l) == l \in {"in", "da", "ap", "apd"}
SameStage(l) == l = "sa"
NaturalKind(l) == IF l \in {"apd", "pd", "qd"} THEN "dir" ELSE "file"
Cinit(l) == CASE l = "in" -> 1 [] l = "da" -> 2 [] l = "ap" -> 3 [] l = "apd" -> 4 [] l = "pa" -> 5 [] l = "pd" -> 6
              [] l = "pt" -> 7 [] l = "qa" -> 8 [] l = "qd" -> 9 [] l = "sa" -> 10 [] l = "w0" -> 11 [] l = "w1" -> 12 [] OTHER -> 0
Tick0 == 20

None == [k |-> "none", c |-> 0, to |-> ""]
File(c) == [k |-> "file", c |-> c, to |-> ""]
Dir(c) == [k |-> "dir", c |-> c, to |-> ""]
Link(t) == [k |-> "link", c |-> 0, to |-> t]
Tree == [k |-> "tree", c |-> 0, to |-> ""]            \* pp: the producer's directory (its content is pa, pd, pl, pm, pt)
Glob == [k |-> "glob", c |-> 0, to |-> ""]
Holder == [k |-> "placeholder", c |-> 0, to |-> ""]

Ref(m, l) == [m |-> m, l |-> l]
Valid(r) == /\ (r.m = "extract" => r.l \in {"pt", "pa", "pd"})       \* extracting something that is no archive: pa / pd
            /\ (r.m \in {"loopref", "loopoutput"} => r.l = "wa")       \* only a placeholder can be aggregated
            /\ r.l \notin {"w0", "w1"}                                  \* an iteration is never named directly
            /\ (r.l = "pg" => r.m \in {"copy", "link", "ref"})
            /\ (r.m = "output" => r.l \notin {"pp", "pd", "qd", "apd", "pg"})

VARIABLES refs, rep, mig, isrc, src, niter, wd, wdlink, inputs, pc, plan, idx, miss, res, staged, launch, tick,
          nmut, nwr, nrs, nag, nev, restarted,
          own, gok, bsame, bwd, wtop, clean, dev, hist
vars == <<refs, rep, mig, isrc, src, niter, wd, wdlink, inputs, pc, plan, idx, miss, res, staged, launch, tick,
          nmut, nwr, nrs, nag, nev, restarted, own, gok, bsame, bwd, wtop, clean, dev, hist>>

-----------------------------------------------------------------------------
(* names *)
GlobName == IF GlobLiteral THEN "a*" ELSE "a"
Name(l) == CASE l \in {"in", "da", "ap", "pa", "qa", "sa", "wa", "w0", "w1"} -> "a"
             [] l \in {"apd", "pd", "qd"} -> "d"
             [] l = "pl" -> "l" [] l = "pm" -> "m" [] l = "pt" -> "t.tar" [] l = "pp" -> "p" [] l = "pg" -> GlobName

(* what a location finally is, following symbolic links in the sources (os.path.exists / isdir / realpath follow them) *)
Latest == IF niter = 1 THEN "w0" ELSE "w1"                 \* what the placeholder stands for now
Iters == IF niter = 1 THEN {"w0"} ELSE {"w0", "w1"}
Final(s, l) == IF s[l].k = "link" THEN s[l].to ELSE IF l = "pg" /\ ~GlobLiteral THEN "pa" ELSE IF l = "wa" THEN Latest ELSE l
LinkLoc(l) == IF l = "wa" THEN Latest ELSE l                \* a link is made to the resolved path: to the iteration
Exists(s, l) == s[Final(s, l)].k \in {"file", "dir", "tree"}
EffKind(s, l) == s[Final(s, l)].k

(* ---- the working directory ---- *)
Ent(p, e) == [p |-> p, k |-> e.k, c |-> e.c, to |-> e.to]
At(w, p) == IF \E e \in w : e.p = p THEN LET e == CHOOSE x \in w : x.p = p IN [k |-> e.k, c |-> e.c, to |-> e.to] ELSE None
Top(w, n) == At(w, <<n>>)
Below(w, p) == {e \in w : Len(e.p) >= Len(p) /\ SubSeq(e.p, 1, Len(p)) = p}       \* the entry at p and everything under it
Put(w, p, e) == (w \ Below(w, p)) \cup {Ent(p, e)}
TopNames(w) == {e.p[1] : e \in {x \in w : Len(x.p) = 1}}

(* the tree a copy of location l makes at path p (shutil.copy / copytree(symlinks=True)) *)
PChildren == {"pa", "pd", "pl", "pm", "pt"}
CopyOf(s, l, p) ==
    LET f == Final(s, l) IN
    CASE s[f].k = "file" -> {Ent(p, File(s[f].c))}
      [] s[f].k = "dir" -> {Ent(p, Dir(0)), Ent(Append(p, "a"), File(s[f].c))}
      [] s[f].k = "tree" ->
            {Ent(p, Dir(0))} \cup UNION {
                CASE s[ch].k = "file" -> {Ent(Append(p, Name(ch)), File(s[ch].c))}
                  [] s[ch].k = "dir" -> {Ent(Append(p, Name(ch)), Dir(0)), Ent(p \o <<Name(ch), "a">>, File(s[ch].c))}
                  \* a relative link stays relative (it then names the copy's own a), an absolute one still names the source
                  [] s[ch].k = "link" -> {Ent(Append(p, Name(ch)), Link(IF ch = "pl" THEN "rel:a" ELSE s[ch].to))}
                  [] OTHER -> {} : ch \in PChildren}
      [] OTHER -> {}

(* refreshing a directory copy in place (FixRestage): every path of the new copy replaces what is there, the rest stays *)
Merge(w, new) == {e \in w : /\ ~\E x \in new : (x.p = e.p /\ (x.k # "dir" \/ e.k # "dir"))
                            /\ ~\E x \in new : (x.k # "dir" /\ Len(e.p) > Len(x.p) /\ SubSeq(e.p, 1, Len(x.p)) = x.p)} \cup new

R(ok, w) == [ok |-> ok, wd |-> w]

StageCopy(s, w, l) ==
    LET n == Name(l)
        dst == Top(w, n)
        f == Final(s, l)
    IN IF EffKind(s, l) \in {"dir", "tree"}
       THEN \* shutil.copytree(reference, wd/name, symlinks=True): the destination must not exist
            IF dst.k = "none" THEN R("ok", w \cup CopyOf(s, l, <<n>>))
            ELSE IF FixRestage /\ dst.k = "dir" THEN R("ok", Merge(w, CopyOf(s, l, <<n>>)))
            ELSE R("nostage", w)
       ELSE \* shutil.copy(reference, wd): never through a link to a different file; a link to the same file: SameFileError;
            \* a directory of that name: IsADirectoryError
            IF dst.k \in {"link", "dir"} THEN R("nostage", w)
            ELSE R("ok", Put(w, <<n>>, File(s[f].c)))

StageLink(s, w, l) ==
    LET n == Name(l)
        dst == Top(w, n)
    IN IF dst.k = "none" THEN R("ok", w \cup {Ent(<<n>>, Link(LinkLoc(l)))})
       ELSE IF FixRestage /\ dst = Link(LinkLoc(l)) THEN R("ok", w)
       ELSE R("nostage", w)                                  \* os.symlink: EEXIST

(* tarfile: every member is checked first (a member whose path runs through a link of the working directory that leaves it *)
(* rejects the whole archive), then the members a and d/a are extracted in this order                                     *)
StageExtract(s, w, l) ==
    LET f == Final(s, l) IN
    IF l # "pt" \/ s[f].k # "file" THEN R("nostage", w)                                  \* not an archive: ReadError / IsADirectoryError
    ELSE IF Top(w, "a").k = "link" \/ Top(w, "d").k = "link" THEN R("nostage", w)
    ELSE IF Top(w, "a").k = "dir" THEN R("nostage", w)
    ELSE LET w1 == Put(w, <<"a">>, File(s[f].c))
         IN IF Top(w1, "d").k = "file" THEN R("nostage", w1)
            ELSE R("ok", (w1 \ {e \in w1 : e.p = <<"d", "a">>}) \cup {Ent(<<"d">>, Dir(0)), Ent(<<"d", "a">>, File(s[f].c))})

(* one call of StageReference *)
Stage(s, w, r) ==
    \* :loopref: the file of every iteration must exist; :loopoutput: resolve() READS the file of every iteration
    IF r.m = "loopref" THEN R(IF \A i \in Iters : s[i].k \in {"file", "dir"} THEN "ok" ELSE "missing", w)
    ELSE IF r.m = "loopoutput" THEN R(IF \A i \in Iters : s[i].k = "file" THEN "ok" ELSE "missing", w)
    ELSE IF ~Exists(s, r.l) THEN R("missing", w)                 \* DataReferenceFilesDoNotExistError
    ELSE CASE r.m \in {"copy", "copyout"} -> StageCopy(s, w, r.l)
           [] r.m = "link" -> StageLink(s, w, r.l)
           [] r.m = "extract" -> StageExtract(s, w, r.l)
           [] OTHER -> R("ok", w)                                \* :ref: only the existence is checked

(* the order of Job.stageIn: inputDataReferences, componentDataReferences (without :copyout, :output is skipped), updateInputs, :copyout *)
Idx(rs) == [i \in 1..Len(rs) |-> i]
Sel(rs, P(_)) == SelectSeq(Idx(rs), P)
PlanOf(rs) ==
    LET isIn(i) == Direct(rs[i].l) /\ rs[i].m \in PathMethods \ {"copyout"}
        isComp(i) == ~Direct(rs[i].l) /\ rs[i].m \in PathMethods \ {"copyout"}
        isOutD(i) == Direct(rs[i].l) /\ rs[i].m = "copyout"
        isOutC(i) == ~Direct(rs[i].l) /\ rs[i].m = "copyout"
        steps(q) == [j \in 1..Len(q) |-> [op |-> "ref", r |-> q[j]]]
    IN steps(Sel(rs, isIn)) \o steps(Sel(rs, isComp)) \o <<[op |-> "upd", r |-> 0]>> \o steps(Sel(rs, isOutD)) \o steps(Sel(rs, isOutC))

Tolerated(r) == rep \/ (~Direct(r.l) /\ SameStage(r.l))       \* ComponentState.stageIn

-----------------------------------------------------------------------------
(* the input space *)
Pos(MS, LS) == {r \in {Ref(m, l) : m \in MS, l \in LS} : Valid(r)}
StagedNames(r) == IF r.m \in {"copy", "copyout", "link"} THEN {Name(r.l)} ELSE IF r.m = "extract" THEN {"a", "d"} ELSE {}
Shaped(rs) == /\ \A i, j \in 1..Len(rs) : i # j => rs[i] # rs[j]           \* the loader rejects a reference given twice
              /\ Shape = "collide" => \E i, j \in 1..Len(rs) : i < j /\ StagedNames(rs[i]) \cap StagedNames(rs[j]) # {}
              /\ Shape = "distinct" => \A i, j \in 1..Len(rs) : i < j => StagedNames(rs[i]) \cap StagedNames(rs[j]) = {}
RefLists ==
    IF Mig THEN {<<Ref("link", "pp")>>}
    ELSE {rs \in (IF 1 \in Lens THEN {<<a>> : a \in Pos(M1, L1)} ELSE {})
                 \cup (IF 2 \in Lens THEN {<<a, b>> : a \in Pos(M1, L1), b \in Pos(M2, L2)} ELSE {})
                 \cup (IF 3 \in Lens THEN {<<a, b, c>> : a \in Pos(M1, L1), b \in Pos(M2, L2), c \in Pos(M3, L3)} ELSE {}) : Shaped(rs)}

RefLocs(rs) == {rs[i].l : i \in 1..Len(rs)}
(* the locations whose kind is chosen: the referenced ones and what they stand for *)
VarLocs(rs) == ((RefLocs(rs) \cup (IF "pl" \in RefLocs(rs) \/ "pg" \in RefLocs(rs) THEN {"pa"} ELSE {})
                             \cup (IF "pm" \in RefLocs(rs) THEN {"qa"} ELSE {})
                             \cup (IF "wa" \in RefLocs(rs) THEN {"w0", "w1"} ELSE {})) \ {"pp", "pl", "pm", "pg", "wa"})
KindsOf(l) == {NaturalKind(l)} \cup (IF l = "pt" THEN AltKinds \cap {"none"} ELSE AltKinds)
Mk(l, k) == CASE k = "file" -> File(Cinit(l)) [] k = "dir" -> Dir(Cinit(l)) [] OTHER -> None
HasP(rs) == "pp" \in RefLocs(rs)
Src0(rs, sel) ==
    [l \in Locs |->
        CASE l \in VarLocs(rs) -> Mk(l, sel[l])
          [] l = "pp" -> Tree
          [] l = "pg" -> Glob
          [] l = "wa" -> Holder
          [] l \in {"pa", "pd"} /\ HasP(rs) -> Mk(l, NaturalKind(l))
          [] l = "qa" /\ HasP(rs) /\ WithLinks -> Mk(l, "file")
          [] l = "pl" /\ (l \in RefLocs(rs) \/ (HasP(rs) /\ WithLinks)) -> Link("pa")
          [] l = "pm" /\ (l \in RefLocs(rs) \/ (HasP(rs) /\ WithLinks)) -> Link("qa")
          [] OTHER -> None]

Lab(e, a, b, n) == [e |-> e, a |-> a, b |-> b, n |-> n]

InitWith(rs, rp, mg, s) ==
    /\ refs = rs /\ rep = rp /\ mig = mg /\ isrc = s /\ src = s /\ niter = 1
    /\ wd = {} /\ wdlink = FALSE /\ inputs = {} /\ pc = "idle" /\ plan = <<>> /\ idx = 0 /\ miss = <<>>
    /\ res = "none" /\ staged = FALSE /\ launch = "none" /\ tick = Tick0
    /\ nmut = 0 /\ nwr = 0 /\ nrs = 0 /\ nag = 0 /\ nev = 0 /\ restarted = FALSE
    /\ own = {} /\ gok = [v |-> FALSE, wd |-> {}, src |-> s, ni |-> 1] /\ bsame = FALSE /\ bwd = {} /\ wtop = "" /\ clean = FALSE /\ dev = {} /\ hist = <<>>

Init == \E rs \in RefLists : \E rp \in Reps : \E sel \in [VarLocs(rs) -> {"none", "file", "dir"}] :
            /\ \A l \in VarLocs(rs) : sel[l] \in KindsOf(l)
            /\ InitWith(rs, rp, Mig, Src0(rs, sel))

-----------------------------------------------------------------------------
(* Job.stageIn *)
BeginCore(lab) ==
    /\ pc' = "staging" /\ idx' = 1 /\ miss' = <<>>
    /\ plan' = IF mig THEN <<[op |-> "mig", r |-> 1]>> ELSE PlanOf(refs)
    /\ bsame' = (gok.v /\ gok.wd = wd /\ gok.src = src /\ gok.ni = niter) /\ bwd' = wd
    /\ hist' = Append(hist, lab)

(* the first stage-in of the component (Controller.finalize_submit_components) *)
Begin ==
    /\ pc = "idle" /\ res = "none"
    /\ BeginCore(Lab("begin", "", "", 0))
    /\ UNCHANGED <<refs, rep, mig, isrc, niter, src, wd, wdlink, inputs, res, staged, launch, tick, nmut, nwr, nrs, nag, nev, restarted, own, gok, wtop, clean, dev>>

(* Job.stageIn called again on the same Job object *)
Again ==
    /\ pc = "idle" /\ res # "none" /\ nag < MaxAgain /\ nev < MaxEvents
    /\ nag' = nag + 1 /\ nev' = nev + 1
    /\ BeginCore(Lab("again", "", "", 0))
    /\ UNCHANGED <<refs, rep, mig, isrc, niter, src, wd, wdlink, inputs, res, staged, launch, tick, nmut, nwr, nrs, restarted, own, gok, wtop, clean, dev>>

Abort(r, verdict) ==
    /\ pc' = "idle" /\ res' = r /\ launch' = verdict /\ clean' = (r = "ok")

(* one reference / updateInputs / the migration link *)
Step ==
    /\ pc = "staging" /\ idx <= Len(plan)
    /\ LET st == plan[idx] IN
       /\ hist' = Append(hist, Lab("step", st.op, "", st.r))
       /\ CASE st.op = "upd" ->
                 \* WorkingDirectory.updateInputs(): whatever is in the directory now is an input
                 /\ inputs' = TopNames(wd) /\ idx' = idx + 1
                 /\ UNCHANGED <<wd, wdlink, pc, miss, res, launch, clean, dev>>
            [] st.op = "mig" ->
                 \* the working directory is removed and replaced by a link to the producer's directory
                 IF wdlink /\ ~FixRestage
                 THEN /\ Abort("other", "abort") /\ dev' = dev \cup {"restage"}                 \* shutil.rmtree on a symbolic link: OSError
                      /\ UNCHANGED <<wd, wdlink, inputs, idx, miss>>
                 ELSE /\ wd' = {} /\ wdlink' = TRUE /\ inputs' = {} /\ idx' = idx + 1
                      /\ UNCHANGED <<pc, miss, res, launch, clean, dev>>
            [] OTHER ->
                 LET r == refs[st.r]
                     o == Stage(src, wd, r)
                     \* would the repaired code have succeeded here? (bookkeeping for the driver: which findings were exercised)
                     restageHit == ~FixRestage /\ o.ok = "nostage" /\
                                   \/ r.m = "link" /\ Top(wd, Name(r.l)) = Link(r.l)
                                   \/ r.m \in {"copy", "copyout"} /\ EffKind(src, r.l) \in {"dir", "tree"} /\ Top(wd, Name(r.l)).k = "dir"
                 IN CASE o.ok = "ok" -> /\ wd' = o.wd /\ idx' = idx + 1
                                        /\ UNCHANGED <<wdlink, inputs, pc, miss, res, launch, clean, dev>>
                      [] o.ok = "missing" /\ FixSkip ->
                                        /\ miss' = Append(miss, st.r) /\ idx' = idx + 1
                                        /\ UNCHANGED <<wd, wdlink, inputs, pc, res, launch, clean, dev>>
                      [] o.ok = "missing" ->
                                        /\ Abort("missing", IF Tolerated(r) THEN "yes" ELSE "failed")
                                        /\ dev' = IF Tolerated(r) /\ (\E j \in (idx + 1)..Len(plan) : plan[j].op = "ref") THEN dev \cup {"skip"} ELSE dev
                                        /\ UNCHANGED <<wd, wdlink, inputs, idx, miss>>
                      [] OTHER ->       /\ Abort("nostage", "abort") /\ wd' = o.wd
                                        /\ dev' = IF restageHit THEN dev \cup {"restage"} ELSE dev
                                        /\ UNCHANGED <<wdlink, inputs, idx, miss>>
    /\ UNCHANGED <<refs, rep, mig, isrc, niter, src, plan, staged, tick, nmut, nwr, nrs, nag, nev, restarted, own, gok, bsame, bwd, wtop>>

End ==
    /\ pc = "staging" /\ idx > Len(plan)
    /\ hist' = Append(hist, Lab("end", "", "", 0))
    /\ pc' = "idle"
    /\ IF miss = <<>>
       THEN /\ res' = "ok" /\ staged' = TRUE /\ launch' = "yes" /\ clean' = TRUE
            /\ gok' = [v |-> TRUE, wd |-> wd, src |-> src, ni |-> niter]
       ELSE /\ res' = "missing" /\ launch' = (IF \A j \in 1..Len(miss) : Tolerated(refs[miss[j]]) THEN "yes" ELSE "failed")
            /\ clean' = FALSE /\ UNCHANGED <<staged, gok>>
    /\ UNCHANGED <<refs, rep, mig, isrc, niter, src, wd, wdlink, inputs, plan, idx, miss, tick, nmut, nwr, nrs, nag, nev, restarted, own, bsame, bwd, wtop, dev>>

-----------------------------------------------------------------------------
(* the environment *)
Mut(l, how) ==
    /\ pc = "idle" /\ res # "none" /\ nmut < MaxMut /\ nev < MaxEvents /\ l \notin Virtual
    /\ CASE how = "mod" -> src[l].k \in {"file", "dir"}
         [] how = "rm" -> src[l].k \in {"file", "dir"} /\ l # "pt"
         [] how = "mkfile" -> src[l].k = "none"
         [] how = "mkdir" -> src[l].k = "none" /\ l # "pt"
         [] OTHER -> FALSE
    /\ src' = [src EXCEPT ![l] = CASE how = "mod" -> [src[l] EXCEPT !.c = tick + 1]
                                   [] how = "rm" -> None
                                   [] how = "mkfile" -> File(tick + 1)
                                   [] OTHER -> Dir(tick + 1)]
    /\ tick' = tick + 1 /\ nmut' = nmut + 1 /\ nev' = nev + 1 /\ clean' = FALSE /\ bsame' = FALSE
    /\ hist' = Append(hist, Lab("mut", l, how, 0))
    /\ UNCHANGED <<refs, rep, mig, isrc, niter, wd, wdlink, inputs, pc, plan, idx, miss, res, staged, launch, nwr, nrs, nag, restarted, own, gok, bwd, wtop, dev>>

WPath(t) == CASE t = "o" -> <<"o">> [] t = "a" -> <<"a">> [] t = "l" -> <<"l">> [] t = "d/a" -> <<"d", "a">> [] t = "d/o" -> <<"d", "o">>
              [] t = "p/a" -> <<"p", "a">> [] t = "p/l" -> <<"p", "l">> [] t = "p/m" -> <<"p", "m">>

(* open(path, "w") + write below the working directory: [ok, wd, src, fresh: a new entry of the working directory was made] *)
W(ok, w, s, fresh) == [ok |-> ok, wd |-> w, src |-> s, fresh |-> fresh]
ThroughSrc(l, c) ==      \* writing at source location l (following its own links): an existing file is rewritten, a missing one is made
    LET f == Final(src, l) IN
    IF src[f].k \in {"file", "none"} /\ f \notin Virtual THEN W(TRUE, wd, [src EXCEPT ![f] = File(c)], FALSE)
    ELSE W(FALSE, wd, src, FALSE)
WriteAt(p, c) ==
    IF wdlink THEN (IF p = <<"a">> THEN ThroughSrc("pa", c) ELSE W(FALSE, wd, src, FALSE))
    ELSE IF Len(p) = 1
    THEN LET e == At(wd, p) IN
         CASE e.k = "none" -> W(TRUE, wd \cup {Ent(p, File(c))}, src, TRUE)
           [] e.k = "file" -> W(TRUE, Put(wd, p, File(c)), src, FALSE)
           [] e.k = "link" -> ThroughSrc(e.to, c)
           [] OTHER -> W(FALSE, wd, src, FALSE)
    ELSE LET top == At(wd, <<p[1]>>)
             e == At(wd, p)
         IN CASE top.k = "dir" ->
                    CASE e.k = "none" -> W(TRUE, wd \cup {Ent(p, File(c))}, src, TRUE)
                      [] e.k = "file" -> W(TRUE, Put(wd, p, File(c)), src, FALSE)
                      [] e.k = "link" /\ e.to = "rel:a" ->
                            LET q == <<p[1], "a">>
                                x == At(wd, q)
                            IN IF x.k = "dir" THEN W(FALSE, wd, src, FALSE)
                               ELSE W(TRUE, Put(wd, q, File(c)), src, x.k = "none")
                      [] e.k = "link" -> ThroughSrc(e.to, c)
                      [] OTHER -> W(FALSE, wd, src, FALSE)
              [] top.k = "link" /\ p[2] = "a" /\ top.to # "pp" /\ EffKind(src, top.to) = "dir" ->
                    \* the staged name is a link to a source directory: its file a is rewritten in the source
                    W(TRUE, wd, [src EXCEPT ![Final(src, top.to)].c = c], FALSE)
              [] OTHER -> W(FALSE, wd, src, FALSE)

Write(t) ==
    /\ pc = "idle" /\ res # "none" /\ nwr < MaxWrite /\ nev < MaxEvents
    /\ LET p == WPath(t)
           o == WriteAt(p, tick + 1)
       IN /\ o.ok
          /\ wd' = o.wd /\ src' = o.src
          /\ wtop' = (IF wdlink THEN "link" ELSE Top(wd, p[1]).k)
          \* a file the task made itself under a name no reference stages (a file it makes under a staged name is fair game for a restage)
          /\ own' = LET q == IF t = "p/l" THEN <<"p", "a">> ELSE p
                         names == UNION {StagedNames(refs[i]) : i \in 1..Len(refs)}
                     IN IF o.fresh /\ ~(q[1] \in names /\ (Len(q) = 1 \/ q[Len(q)] # "o")) THEN own \cup {q} ELSE own
    /\ tick' = tick + 1 /\ nwr' = nwr + 1 /\ nev' = nev + 1 /\ clean' = FALSE /\ bsame' = FALSE
    /\ hist' = Append(hist, Lab("write", t, "", 0))
    /\ UNCHANGED <<refs, rep, mig, isrc, niter, wdlink, inputs, pc, plan, idx, miss, res, staged, launch, nmut, nrs, nag, restarted, gok, bwd, dev>>

(* elaunch -r <stage of c> [--restageData yes]: Experiment.experimentFromInstance makes new Job objects; the new               *)
(* JobWorkingDirectory regards everything in the directory as input (ignoreExisting is False)                                *)
PNames == {Name(ch) : ch \in {x \in PChildren : src[x].k # "none"}}
Restart(restage) ==
    /\ pc = "idle" /\ res # "none" /\ nrs < MaxRestart /\ nev < MaxEvents
    /\ niter = 1                      \* (the harness does not persist a new iteration; reloading a loop is C05 / C07's subject)
    /\ nrs' = nrs + 1 /\ nev' = nev + 1 /\ restarted' = TRUE
    /\ inputs' = IF wdlink THEN PNames ELSE TopNames(wd)
    /\ IF restage
       THEN /\ staged' = FALSE
            /\ BeginCore(Lab("restart", "restage", "", 0))
            /\ UNCHANGED <<res, launch, clean>>
       ELSE /\ staged' = TRUE /\ res' = "skip" /\ launch' = "yes"            \* control.py: comp.specification.isStaged = True
            /\ hist' = Append(hist, Lab("restart", "keep", "", 0))
            /\ UNCHANGED <<pc, plan, idx, miss, bsame, bwd, clean>>
    /\ UNCHANGED <<refs, rep, mig, isrc, niter, src, wd, wdlink, tick, nmut, nwr, nag, own, gok, wtop, dev>>

(* the loop gets its next iteration: the placeholder w now stands for iteration 1 (WorkflowGraph.instantiate_dowhile_next_iteration) *)
Iterate ==
    /\ pc = "idle" /\ res # "none" /\ niter = 1 /\ Iterates /\ "wa" \in RefLocs(refs) /\ nev < MaxEvents
    /\ niter' = 2 /\ nev' = nev + 1 /\ clean' = FALSE /\ bsame' = FALSE
    /\ hist' = Append(hist, Lab("iter", "", "", 0))
    /\ UNCHANGED <<refs, rep, mig, isrc, src, wd, wdlink, inputs, pc, plan, idx, miss, res, staged, launch, tick, nmut, nwr, nrs, nag, restarted,
                   own, gok, bwd, wtop, dev>>

Next == \/ Begin \/ Again \/ Step \/ End \/ Iterate
        \/ \E l \in MutLocs, how \in MutHows : Mut(l, how)
        \/ \E t \in WriteTargets : Write(t)
        \/ \E b \in Restages : Restart(b)

Spec == Init /\ [][Next]_vars /\ WF_vars(Step \/ End)

-----------------------------------------------------------------------------
(* THE PROMISES *)
TypeOK == /\ pc \in {"idle", "staging"} /\ res \in {"none", "skip", "ok", "missing", "nostage", "other"}
          /\ launch \in {"none", "yes", "failed", "abort"} /\ staged \in BOOLEAN /\ wdlink \in BOOLEAN
          /\ \A e \in wd : e.k \in {"file", "dir", "link"} /\ Len(e.p) \in 1..3
          /\ \A e \in wd : Len(e.p) > 1 => At(wd, SubSeq(e.p, 1, Len(e.p) - 1)).k = "dir"      \* it is a tree
          /\ \A e, x \in wd : e.p = x.p => e = x
          /\ inputs \subseteq {"a", "d", "l", "m", "p", "o", "t.tar", "a*"}

(* staging reads the sources, it never writes them (thanks to the check before shutil.copy and the archive check) *)
StagingLeavesSources == [][pc = "staging" => src' = src]_vars

(* a private copy: a change of a source never shows in the working directory (links excepted: they are entries naming the source) *)
SourceChangeInvisible == [][nmut' # nmut => wd' = wd]_vars

(* :ref, :loopref and :loopoutput stage nothing (:output is not even looked at); updateInputs changes no file *)
RefStagesNothing == [][(pc = "staging" /\ idx <= Len(plan) /\ plan[idx].op = "ref" /\ refs[plan[idx].r].m \in {"ref", "loopref", "loopoutput"}) => wd' = wd]_vars
UpdChangesNoFile == [][(pc = "staging" /\ idx <= Len(plan) /\ plan[idx].op = "upd") => wd' = wd]_vars

(* which reference staged a top-level name last (in the order of the plan) *)
StagersOf(n) == {j \in 1..Len(plan) : plan[j].op = "ref" /\ n \in StagedNames(refs[plan[j].r])}
LastStager(n) == refs[plan[CHOOSE j \in StagersOf(n) : \A x \in StagersOf(n) : x <= j].r]

(* after a successful stage-in (and before anybody writes again) every staged name is what its LAST reference makes of the source *)
(* as it is now: a copy has the source's content, a link names the source, collisions are resolved by order (last wins)         *)
StagedIsCurrent ==
    (pc = "idle" /\ res = "ok" /\ clean /\ ~mig) =>
        \A n \in {"a", "d", "l", "m", "p", "t.tar"} : StagersOf(n) # {} =>
            LET r == LastStager(n) IN
            CASE r.m \in {"copy", "copyout"} -> CopyOf(src, r.l, <<n>>) \subseteq wd
              [] r.m = "link" -> Top(wd, n) = Link(LinkLoc(r.l))
              [] r.m = "extract" /\ n = "a" -> Top(wd, "a") = File(src["pt"].c)
              [] OTHER -> At(wd, <<"d", "a">>) = File(src["pt"].c)

(* a link names its source as long as the component stays staged *)
LinksNameSources == \A e \in wd : (e.k = "link" /\ Len(e.p) = 1) => e.to \in Locs /\ Name(e.to) = e.p[1]

(* a failing stage-in raises one of the two documented errors *)
FailDocumented == res # "other"

(* the component is launched only with everything staged *)
RefsLeft == \E j \in (idx + 1)..Len(plan) : plan[j].op = "ref"
NoHalfStagedLaunch == (pc = "idle" /\ launch = "yes" /\ res \notin {"none", "skip"}) => ~RefsLeft
(* ... and with its inputs recorded *)
LaunchedIsStaged == (pc = "idle" /\ launch = "yes" /\ res = "ok") => staged

(* a missing source of a copy / link / extract fails the stage-in ... *)
MissingFails == (pc = "idle" /\ res = "ok") =>
                    \A i \in 1..Len(refs) : refs[i].m \in PathMethods => (Exists(src, refs[i].l) \/ ~clean)
(* ... and, unless tolerated (ToleratedMissing is a named deviation), the component is not launched *)
MissingNotLaunched == (pc = "idle" /\ res = "missing") => launch \in {"failed", "yes"} /\ (launch = "yes" => rep \/ \E i \in 1..Len(refs) : SameStage(refs[i].l))

(* idempotent: a stage-in over the result of a successful one, with unchanged sources, succeeds and changes nothing *)
Idempotent == (pc = "idle" /\ bsame /\ res # "skip") => (res = "ok" /\ wd = gok.wd)

(* restart without restaging touches nothing and launches *)
RestartKeeps == [][(nrs' # nrs /\ pc' = "idle") => (wd' = wd /\ src' = src /\ launch' = "yes" /\ staged')]_vars

(* staging (first, again, restaged) never removes or rewrites a file the task made itself *)
OwnOutputsSurvive == [][pc = "staging" => \A e \in wd : e.p \in own => e \in wd']_vars

(* only the working directory of a migrated component is ever replaced by a link *)
StillADirectory == wdlink => mig

(* inputs / outputs: right after the first successful stage-in the inputs are exactly what the non-:copyout references staged *)
InputsAreStaged ==
    (pc = "idle" /\ res = "ok" /\ ~restarted /\ nag = 0 /\ nwr = 0 /\ ~mig) =>
        inputs = UNION {StagedNames(refs[plan[j].r]) : j \in {x \in 1..Len(plan) : plan[x].op = "ref" /\ refs[plan[x].r].m # "copyout"}}

(* liveness: a stage-in ends *)
StageInEnds == (pc = "staging") ~> (pc = "idle")

-----------------------------------------------------------------------------
(* NAMED DEVIATIONS: stronger promises the code does not keep; the driver expects TLC to refute each *)
(* GlobLiteral: a glob that matches a file is staged *)
GlobHonoured == ~(pc = "idle" /\ res = "missing" /\ \E i \in 1..Len(refs) : refs[i].l = "pg" /\ src["pa"].k = "file" /\ Len(refs) = 1)
(* ToleratedMissing: a component whose reference is missing is never launched *)
MissingNeverLaunched == ~(pc = "idle" /\ res = "missing" /\ launch = "yes")
(* HalfStagedOnError: a failing stage-in leaves the working directory as it was *)
FailureRollsBack == [][(pc = "staging" /\ pc' = "idle" /\ res' \in {"missing", "nostage"}) => wd' = bwd]_vars
(* CopyKeepsSymlinks: a write of the task below a name staged with :copy never reaches a source *)
CopyWritesStayPrivate == [][(nwr' # nwr /\ wtop' # "link") => src' = src]_vars
(* LinkWriteThrough: no write of the task ever reaches a source *)
WritesStayPrivate == [][nwr' # nwr => src' = src]_vars
(* RestartOutputsBecomeInputs: what the task made itself is never regarded as an input *)
OwnOutputsNeverInputs == \A p \in own : Len(p) = 1 => p[1] \notin inputs
(* CopyoutBecomesInput: a name staged with :copyout (only) is never an input *)
CopyoutNeverInput == (pc = "idle" /\ res = "ok" /\ ~mig) =>
    \A i \in 1..Len(refs) : (refs[i].m = "copyout" /\ \A j \in 1..Len(refs) : j # i => StagedNames(refs[j]) \cap StagedNames(refs[i]) = {})
                            => Name(refs[i].l) \notin inputs

-----------------------------------------------------------------------------
(* for the conformance driver: the part of the state the real code shows *)
Proj == [i0 |-> [l \in Locs \ Virtual |-> isrc[l]], wd |-> wd, src |-> [l \in Locs \ Virtual |-> src[l]], ni |-> niter, inp |-> inputs, wl |-> wdlink, st |-> staged, res |-> res, launch |-> launch,
         pc |-> pc, dev |-> dev]
Header == [refs |-> refs, rep |-> rep, mig |-> mig]
EmitState == Emit => PrintT(ToJson([h |-> hist, hd |-> Header, s |-> Proj]))
=============================================================================
