---------------------------- MODULE TaskLifecycle ----------------------------
(***************************************************************************)
(* Growth item G04: the Task contract and the monitor primitives below the *)
(* Engine.                                                                 *)
(*   experiment/runtime/task.py                       (the Task interface) *)
(*   experiment/runtime/backend_interfaces/localtask.py        (LocalTask) *)
(*   experiment/runtime/backend_interfaces/task_simulator.py (SimulatorTask)*)
(*   experiment/runtime/monitor.py  (CreateMonitor, CreateDeathAction,     *)
(*                       CreateEventAction, MonitorExceptionTracker)       *)
(*                                                                         *)
(* Five sub-specifications share this module (each freezes the variables   *)
(* of the others):                                                         *)
(*                                                                         *)
(* 1. TaskSpec -- ONE LocalTask = subprocess.Popen + a waiter thread.      *)
(*    k/st: the kernel's view of the process (run, zombie = exited and not *)
(*    yet waited for, reaped); rc: Popen.returncode; lock: _waitpid_lock   *)
(*    (the waiter thread holds it for as long as it sits in waitpid());    *)
(*    wpc: the waiter thread _wait_task_and_set_epoch_finished at statement*)
(*    granularity (returncode, then _z_finished_date, then the             *)
(*    epoch-finished cell, then _z_wait_event); opc/seen: threads calling  *)
(*    wait() and what they find when it returns; the API calls of the      *)
(*    owner (kill, terminate, poll, isAlive, exitReason, status) as atomic *)
(*    actions with their result in `res`; the environment: the process     *)
(*    exits with a code, an outsider signals it, SIGTERM may be ignored.   *)
(*    A death/event monitor (CreateDeathAction / CreateEventAction) can be *)
(*    attached: a chain of timer ticks, each tick a thread that reads the  *)
(*    cancel event, runs the test (the real life check POLLS the task, so  *)
(*    a tick can be the one that reaps the process), then arms the next    *)
(*    timer or runs the action.                                            *)
(* 2. PerSpec -- CreateMonitor: the periodic action thread (numeric or     *)
(*    callable interval, cancel event, last action, exceptions of the      *)
(*    action, FilesystemInconsistencyError retries).                       *)
(* 3. SimSpec -- SimulatorTask: the run thread, the self-rescheduling poll *)
(*    thread (real vs observed state), kill/terminate.                     *)
(* 4. TabSpec -- function specification returncode -> exitReason / status  *)
(*    for both implementations, every code in -64..255.                    *)
(* 5. TrkSpec -- function specification MonitorExceptionTracker.           *)
(*    isSystemStable.                                                      *)
(*                                                                         *)
(* NAMED DEVIATIONS (behaviour of the code that the "obvious" promise      *)
(* excludes; modelled, each with a strong property that TLC refutes):      *)
(*   KillIsTerminate     LocalTask.kill() sends SIGTERM: a task ended by   *)
(*                       kill() reports Cancelled, not Killed              *)
(*                       (KillGivesKilled)                                 *)
(*   KillIsSoft          ... and a process that ignores SIGTERM is never   *)
(*                       stopped by kill() (KillLeadsToDeath)              *)
(*   ZombieLooksAlive    the waiter thread holds _waitpid_lock while it    *)
(*                       blocks in waitpid(): poll() "knows nothing" until *)
(*                       that thread has run, isAlive() is True for a      *)
(*                       process that has exited (QuerySeesDeath)          *)
(*   SignalAfterReap     for the same reason send_signal's poll() cannot   *)
(*                       protect against signalling a pid that was already *)
(*                       waited for (NoSignalToFreedPid)                   *)
(*   EpochFinishedLate   _z_finished_date is set BEFORE the epoch-finished *)
(*                       cell: a wait() entered in between returns without *)
(*                       the cell being filled (WaitSeesEpoch)             *)
(*   ActionAfterCancel   monitors read the cancel event, THEN act: an      *)
(*                       action / death action can begin after the event   *)
(*                       was set (NoDeathActionAfterCancel,                *)
(*                       NoNormalActionAfterCancel)                        *)
(*   TruthyIsDead        DeathAction tests `LifeCheck() is True`,          *)
(*                       EventAction `test() is False`: 1 / 0 / None are   *)
(*                       "dead" / "event happened" (OnlyFalseIsDead)       *)
(*   RetryIgnoresInterval after a failed action CreateMonitor sleeps 5 s   *)
(*                       and acts again without waiting for the interval   *)
(*                       (IntervalBetweenActions)                          *)
(*   FsBailOutSkipsLast  after FsRetries+1 FilesystemInconsistencyErrors   *)
(*                       the monitor returns: no last action               *)
(*                       (CancelLeadsToLastAction)                         *)
(*   SimCodeBeforeState  poll() publishes the observed return code before  *)
(*                       the observed state: returncode can be set while   *)
(*                       isAlive() is still True (SimCodeOnlyWhenDead)     *)
(*   SimKillWaitsOut     SimulatorTask.kill() while "submitted" is only    *)
(*                       honoured after the full execution time            *)
(*                       (SimKillAbortsExecution)                          *)
(*   SimKillLost         statement level: _run tests `_real_return_code is *)
(*                       None`, kill() writes -9, _run writes the expected *)
(*                       code over it (SimKillSticks, Fine = TRUE)         *)
(*   SimKillRewritesExit kill() between the real end and the next poll     *)
(*                       turns a finished task into a Killed one           *)
(*                       (SimFinishedStaysFinished)                        *)
(*   SimTornPoll         poll() reads _real_state and _real_return_code    *)
(*                       without the lock: observed finished / code None   *)
(*                       (SimDeadHasCode) -- a FINDING, see g04.py; switch *)
(*                       SimStateLast = TRUE models the repaired code      *)
(*   ModelSystemError    MonitorExceptionTracker counts the BUILTIN        *)
(*                       SystemError and FilesystemInconsistencyError as   *)
(*                       system errors, not experiment.model.errors.       *)
(*                       SystemError (IsSystem, kind "msys")               *)
(* Observed, not modelled: SimulatorTask.poll() returns None whatever the  *)
(* state and re-arms its own 1 s thread chain (the Task interface says it  *)
(* returns the return code); Create*(cancelEvent=<not an Event>) raises     *)
(* TypeError (`.with_traceback(cancelEvent)`), the docstrings say          *)
(* ValueError.                                                             *)
(***************************************************************************)
EXTENDS Integers, Sequences, FiniteSets, TLC, Json

CONSTANTS
  ExitCodes,     \* exit codes the process may end with by itself
  ExtSignals,    \* signals an outsider may deliver
  Disps,         \* what SIGTERM does to the process: "die", "ignore"
  Observers,     \* threads that may call wait(): 1..n
  MaxKill,       \* bound on kill()/terminate() calls that reach os.kill
  MonKind,       \* "none" | "death" | "event": monitor attached to the task
  TestKind,      \* "task": the test polls the task; "env": the environment chooses what the test returns
  TestVals,      \* "env": what the test may return: "True", "False", "One", "Zero", "None", "raise"
  ActOuts,       \* outcomes of an action function: "ok", "exc" (+ "fs" for the periodic monitor)
  LastAction,    \* CreateMonitor(lastAction=...)
  IntervalKind,  \* "number" | "callable"
  FsRetries,     \* 5 in the code
  MaxAct, MaxPoll, \* bounds: actions / polls per waiting period of the periodic monitor
  SimCodes,      \* expected exit codes of the simulated task
  SimUnmet,      \* BOOLEAN values: the simulated task finds unmet dependencies
  MaxSimPoll,    \* bound on poll cycles of the simulator
  SimStateLast,  \* FALSE: the code as it is (_run sets _real_state = finished BEFORE the return code: finding SimTornPoll);
                 \* TRUE: the repaired _run (out/proposed_fixes/G04_simulator_torn_poll.diff): the state is published last
  Fine,          \* TRUE: statement-level steps of threads that do not change the modelled state are steps of their own (they move the hidden
                 \* position of the thread); FALSE: a thread step runs until a statement changes the state / blocks / ends
  TrackRes,      \* TRUE: `res` remembers the last API call and its result (properties); FALSE: the result is only on the printed transition
  Emit           \* TRUE: print every transition <<from, label, to>> (spec -> code replay)

NoRc == 999    \* returncode None

VARIABLES
  \* ---- LocalTask ----
  k, st, disp, rc, lock, wpc, fin, epoch, ev, opc, seen, sigs, late, lost, res,
  \* ---- death / event monitor ----
  dm, tpc, tsaw, tval, cancel, timers, nact, nerr, terr, actc,
  \* ---- periodic monitor ----
  ppc, pv, pcont, pretry, pnorm, plast, pafter, ppoll, pgap,
  \* ---- simulator ----
  srs, srr, sos, sor, sfe, srun, spoll, snpoll, scode, sunmet, snotified, skills, sfile, scall, swait, sseen, spst,
  \* ---- tables ----
  tabc, trk, tnow

taskVars == <<k, st, disp, rc, lock, wpc, fin, epoch, ev, opc, seen, sigs, late, lost, res>>
monVars == <<dm, tpc, tsaw, tval, cancel, timers, nact, nerr, terr, actc>>
perVars == <<ppc, pv, pcont, pretry, pnorm, plast, pafter, ppoll, pgap>>
simVars == <<srs, srr, sos, sor, sfe, srun, spoll, snpoll, scode, sunmet, snotified, skills, sfile, scall, swait, sseen, spst>>
tabVars == <<tabc, trk, tnow>>
vars == <<taskVars, monVars, perVars, simVars, tabVars>>

-----------------------------------------------------------------------------
(* returncode -> exitReason / status                                        *)

ReasonLocal(r) ==
  IF r = 0 THEN "Success"
  ELSE IF r = -9 THEN "Killed"
  ELSE IF r \in {-2, -15} THEN "Cancelled"
  ELSE IF r = -24 THEN "ResourceExhausted"
  ELSE IF r < 0 THEN "UnknownIssue"
  ELSE "KnownIssue"

ReasonSim(r) ==
  IF r = 0 THEN "Success"
  ELSE IF r = -9 THEN "Killed"
  ELSE IF r \in {-2, -15} THEN "Cancelled"
  ELSE IF r < 0 THEN "UnknownIssue"
  ELSE IF r = 24 THEN "ResourceExhausted"
  ELSE "KnownIssue"

StatusOf(r) == IF r = NoRc THEN "running" ELSE IF r = 0 THEN "finished" ELSE "failed"
Reason(r) == IF r = NoRc THEN "None" ELSE ReasonLocal(r)

NoRes == <<"-", NoRc, "-", "-">>
\* what the owner reads after a call: <<isAlive(), poll()/returncode, exitReason, status>>
ViewOf(r) == <<IF r = NoRc THEN "T" ELSE "F", r, Reason(r), StatusOf(r)>>

-----------------------------------------------------------------------------
(* idle values                                                              *)

TaskIdle ==
  /\ k = "none" /\ st = 0 /\ disp = "die" /\ rc = NoRc /\ lock = FALSE /\ wpc = "none"
  /\ fin = FALSE /\ epoch = FALSE /\ ev = FALSE
  /\ opc = [o \in Observers |-> "idle"] /\ seen = [o \in Observers |-> <<NoRc, FALSE>>]
  /\ sigs = <<>> /\ late = 0 /\ lost = 0 /\ res = <<"-", NoRes>>
MonIdle ==
  /\ dm = "off" /\ tpc = "none" /\ tsaw = FALSE /\ tval = "-" /\ cancel = FALSE /\ timers = 0
  /\ nact = 0 /\ nerr = 0 /\ terr = "none" /\ actc = FALSE
PerIdle ==
  /\ ppc = "off" /\ pv = FALSE /\ pcont = TRUE /\ pretry = FsRetries /\ pnorm = 0 /\ plast = 0 /\ pafter = 0
  /\ ppoll = 0 /\ pgap = TRUE
SimIdle ==
  /\ srs = "none" /\ srr = NoRc /\ sos = "none" /\ sor = NoRc /\ sfe = FALSE /\ srun = "none" /\ spoll = "none"
  /\ snpoll = 0 /\ scode = 0 /\ sunmet = FALSE /\ snotified = FALSE /\ skills = 0 /\ sfile = "-"
  /\ scall = "idle" /\ swait = "idle" /\ sseen = NoRes /\ spst = "none"
TabIdle == tabc = 0 /\ trk = <<>> /\ tnow = 0

-----------------------------------------------------------------------------
(* 1. LocalTask                                                             *)

TS == <<k, st, disp, rc, lock, wpc, fin, epoch, ev, opc, seen, sigs, late, lost, res,
        dm, tpc, tsaw, tval, cancel, timers, nact, nerr, terr, actc>>
EdgeT(l) == Emit => PrintT(ToJson(<<TS, l, TS'>>))

\* a poll() by a thread that does not hold _waitpid_lock: waitpid(WNOHANG) reaps a zombie
PollReaps == rc = NoRc /\ ~lock /\ k = "zombie"
RcAfterPoll == IF PollReaps THEN st ELSE rc
KAfterPoll == IF PollReaps THEN "reaped" ELSE k

Create(d, ok) ==
  /\ k = "none"
  /\ IF ok THEN k' = "run" /\ disp' = d /\ wpc' = "new"
           ELSE k' = "failed" /\ UNCHANGED <<disp, wpc>>      \* Popen.__init__ raises: no object, no thread
  /\ UNCHANGED <<st, rc, lock, fin, epoch, ev, opc, seen, sigs, late, lost, res, monVars>>

ProcExit(c) ==
  /\ k = "run" /\ k' = "zombie" /\ st' = c
  /\ UNCHANGED <<disp, rc, lock, wpc, fin, epoch, ev, opc, seen, sigs, late, lost, res, monVars>>

ExtSignal(s) ==
  /\ k = "run" /\ ~(s = 15 /\ disp = "ignore")
  /\ k' = "zombie" /\ st' = 0 - s
  /\ UNCHANGED <<disp, rc, lock, wpc, fin, epoch, ev, opc, seen, sigs, late, lost, res, monVars>>

Exists == k \notin {"none", "failed"}

\* kill() == terminate() == Popen.send_signal(SIGTERM): poll; known dead -> return; else os.kill(pid, SIGTERM)
KillCall(which) ==
  /\ Exists
  /\ Len(sigs) + late + lost < MaxKill
  /\ rc' = RcAfterPoll
  /\ IF RcAfterPoll # NoRc THEN k' = KAfterPoll /\ UNCHANGED <<st, sigs, late, lost>>
     ELSE CASE k = "run" -> /\ sigs' = Append(sigs, 15)
                            /\ IF disp = "die" THEN k' = "zombie" /\ st' = -15 ELSE UNCHANGED <<k, st>>
                            /\ UNCHANGED <<late, lost>>
            [] k = "zombie" -> late' = late + 1 /\ UNCHANGED <<k, st, sigs, lost>>     \* no effect, no error
            [] k = "reaped" -> lost' = lost + 1 /\ UNCHANGED <<k, st, sigs, late>>     \* ProcessLookupError, suppressed
  /\ res' = IF TrackRes THEN <<which, NoRes>> ELSE res
  /\ UNCHANGED <<disp, lock, wpc, fin, epoch, ev, opc, seen, monVars>>

\* poll() / isAlive() / exitReason / status: each polls first; `first` is the one called first, then the others are read
Query(first) ==
  /\ Exists
  /\ rc' = RcAfterPoll /\ k' = KAfterPoll
  /\ res' = IF TrackRes THEN <<first, ViewOf(RcAfterPoll)>> ELSE res
  /\ UNCHANGED <<st, disp, lock, wpc, fin, epoch, ev, opc, seen, sigs, late, lost, monVars>>

\* ---- the waiter thread: try: Popen.wait(self) ...; _z_finished_date = now; cell = ...; _z_wait_event.set()
WStart ==
  /\ wpc = "new"
  /\ IF rc # NoRc
     THEN fin' = TRUE /\ wpc' = "fin" /\ UNCHANGED <<k, lock>>          \* somebody polled first: Popen.wait returns at once
     ELSE /\ lock' = TRUE
          /\ IF k = "zombie" THEN k' = "reaped" /\ wpc' = "sys" ELSE wpc' = "blocked" /\ k' = k
          /\ fin' = fin
  /\ UNCHANGED <<st, disp, rc, epoch, ev, opc, seen, sigs, late, lost, res, monVars>>
WWake ==
  /\ wpc = "blocked" /\ k = "zombie" /\ k' = "reaped" /\ wpc' = "sys"
  /\ UNCHANGED <<st, disp, rc, lock, fin, epoch, ev, opc, seen, sigs, late, lost, res, monVars>>
WRc ==
  /\ wpc = "sys" /\ rc' = st /\ lock' = FALSE /\ wpc' = "post"
  /\ UNCHANGED <<k, st, disp, fin, epoch, ev, opc, seen, sigs, late, lost, res, monVars>>
WFin ==
  /\ wpc = "post" /\ fin' = TRUE /\ wpc' = "fin"
  /\ UNCHANGED <<k, st, disp, rc, lock, epoch, ev, opc, seen, sigs, late, lost, res, monVars>>
WEpoch ==
  /\ wpc = "fin" /\ epoch' = TRUE /\ wpc' = "epoch"
  /\ UNCHANGED <<k, st, disp, rc, lock, fin, ev, opc, seen, sigs, late, lost, res, monVars>>
WSet ==
  /\ wpc = "epoch" /\ ev' = TRUE /\ wpc' = "done"
  /\ UNCHANGED <<k, st, disp, rc, lock, fin, epoch, opc, seen, sigs, late, lost, res, monVars>>
Waiter == WStart \/ WWake \/ WRc \/ WFin \/ WEpoch \/ WSet

\* ---- a thread calling wait(): if _z_finished_date is None: _z_wait_event.wait(); Popen.wait(self)
WaitCall(o) ==
  /\ Exists /\ opc[o] = "idle" /\ opc' = [opc EXCEPT ![o] = "new"]
  /\ UNCHANGED <<k, st, disp, rc, lock, wpc, fin, epoch, ev, seen, sigs, late, lost, res, monVars>>
OCheck(o) ==      \* `if self._z_finished_date is None`
  /\ opc[o] = "new"
  /\ IF fin THEN opc' = [opc EXCEPT ![o] = "done"] /\ seen' = [seen EXCEPT ![o] = <<rc, epoch>>]
            ELSE opc' = [opc EXCEPT ![o] = "chk"] /\ seen' = seen
  /\ UNCHANGED <<k, st, disp, rc, lock, wpc, fin, epoch, ev, sigs, late, lost, res, monVars>>
OWait(o) ==       \* `self._z_wait_event.wait()`: returns at once when the event is set by now
  /\ opc[o] = "chk"
  /\ IF ev THEN opc' = [opc EXCEPT ![o] = "done"] /\ seen' = [seen EXCEPT ![o] = <<rc, epoch>>]
           ELSE opc' = [opc EXCEPT ![o] = "evwait"] /\ seen' = seen
  /\ UNCHANGED <<k, st, disp, rc, lock, wpc, fin, epoch, ev, sigs, late, lost, res, monVars>>
OWake(o) ==
  /\ opc[o] = "evwait" /\ ev
  /\ opc' = [opc EXCEPT ![o] = "done"] /\ seen' = [seen EXCEPT ![o] = <<rc, epoch>>]
  /\ UNCHANGED <<k, st, disp, rc, lock, wpc, fin, epoch, ev, sigs, late, lost, res, monVars>>
OPeek(o) ==       \* Fine: the thread has read _z_finished_date (None) and has not yet called wait()
  /\ Fine /\ opc[o] = "new" /\ ~fin /\ opc' = [opc EXCEPT ![o] = "saw"]
  /\ UNCHANGED <<k, st, disp, rc, lock, wpc, fin, epoch, ev, seen, sigs, late, lost, res, monVars>>
OGo(o) ==
  /\ opc[o] = "saw" /\ opc' = [opc EXCEPT ![o] = "chk"]
  /\ UNCHANGED <<k, st, disp, rc, lock, wpc, fin, epoch, ev, seen, sigs, late, lost, res, monVars>>
OStep(o) == OCheck(o) \/ OWait(o) \/ OWake(o) \/ OPeek(o) \/ OGo(o)

\* ---- the death / event monitor attached to the task
TestArms(v) == IF MonKind = "death" THEN v = "True" ELSE v = "False"     \* `LifeCheck() is True` / `test() is False`
TaskTestValue(r) == IF MonKind = "death" THEN (IF r = NoRc THEN "True" ELSE "False")
                                         ELSE (IF r = NoRc THEN "False" ELSE "True")

MonStart ==
  /\ MonKind # "none" /\ dm = "off" /\ (TestKind = "task" => Exists)
  /\ dm' = "tick" /\ tpc' = "new"
  /\ UNCHANGED <<taskVars, tsaw, tval, cancel, timers, nact, nerr, terr, actc>>
Cancel ==
  /\ MonKind # "none" /\ ~cancel /\ cancel' = TRUE
  /\ UNCHANGED <<taskVars, dm, tpc, tsaw, tval, timers, nact, nerr, terr, actc>>
Fire ==
  /\ timers = 1 /\ tpc = "none" /\ timers' = 0 /\ tpc' = "new" /\ dm' = "tick"
  /\ UNCHANGED <<taskVars, tsaw, tval, cancel, nact, nerr, terr, actc>>
TChk ==       \* the tick reads the cancel event
  /\ tpc = "new" /\ tsaw' = cancel /\ tpc' = "chk"
  /\ UNCHANGED <<taskVars, dm, tval, cancel, timers, nact, nerr, terr, actc>>
TTest(v) ==   \* cancelled: the chain ends; else the test runs
  /\ tpc = "chk"
  /\ IF tsaw THEN tpc' = "none" /\ dm' = "stopped" /\ UNCHANGED <<taskVars, tval>>
     ELSE /\ tpc' = "tst"
          /\ IF TestKind = "task"
             THEN /\ rc' = RcAfterPoll /\ k' = KAfterPoll /\ tval' = TaskTestValue(RcAfterPoll)
                  /\ UNCHANGED <<st, disp, lock, wpc, fin, epoch, ev, opc, seen, sigs, late, lost, res>>
             ELSE tval' = v /\ UNCHANGED taskVars
          /\ dm' = dm
  /\ UNCHANGED <<tsaw, cancel, timers, nact, nerr, terr, actc>>
TDecide ==
  /\ tpc = "tst"
  /\ CASE tval = "raise" -> tpc' = "none" /\ dm' = "died" /\ nerr' = nerr + 1 /\ terr' = "MonitorTestError"
                            /\ UNCHANGED <<timers, nact, actc>>
       [] tval # "raise" /\ TestArms(tval) -> tpc' = "none" /\ dm' = "armed" /\ timers' = 1 /\ UNCHANGED <<nerr, terr, nact, actc>>
       [] OTHER -> tpc' = "act" /\ nact' = nact + 1 /\ actc' = cancel /\ UNCHANGED <<dm, timers, nerr, terr>>
  /\ UNCHANGED <<taskVars, tsaw, tval, cancel>>
TAct(out) ==
  /\ tpc = "act" /\ tpc' = "none" /\ dm' = "fired"
  /\ IF out = "ok" THEN UNCHANGED <<nerr, terr>> ELSE nerr' = nerr + 1 /\ terr' = "MonitorActionError"
  /\ UNCHANGED <<taskVars, tsaw, tval, cancel, timers, nact, actc>>

TaskInit == TaskIdle /\ MonIdle /\ PerIdle /\ SimIdle /\ TabIdle

Frozen1 == UNCHANGED <<perVars, simVars, tabVars>>
TaskNext ==
  /\ Frozen1
  /\ \/ \E d \in Disps : Create(d, TRUE) /\ EdgeT(<<"Create", d, 0, "Create">>)
     \/ Create("die", FALSE) /\ EdgeT(<<"Create", "fail", 0, "CreateFails">>)
     \/ \E c \in ExitCodes : ProcExit(c) /\ EdgeT(<<"ProcExit", c, 0, "ProcExit">>)
     \/ \E s \in ExtSignals : ExtSignal(s) /\ EdgeT(<<"ExtSignal", s, 0, "ExtSignal">>)
     \/ \E w \in {"kill", "terminate"} : KillCall(w) /\ EdgeT(<<"Call", w, NoRes, "KillCall">>)
     \/ \E f \in {"poll", "isAlive", "exitReason", "status"} : Query(f) /\ EdgeT(<<"Call", f, ViewOf(RcAfterPoll), "Query">>)
     \/ WStart /\ EdgeT(<<"W", 0, 0, "WStart">>)
     \/ WWake /\ EdgeT(<<"W", 0, 0, "WWake">>)
     \/ WRc /\ EdgeT(<<"W", 0, 0, "WRc">>)
     \/ WFin /\ EdgeT(<<"W", 0, 0, "WFin">>)
     \/ WEpoch /\ EdgeT(<<"W", 0, 0, "WEpoch">>)
     \/ WSet /\ EdgeT(<<"W", 0, 0, "WSet">>)
     \/ \E o \in Observers : WaitCall(o) /\ EdgeT(<<"WaitCall", o, 0, "WaitCall">>)
     \/ \E o \in Observers : OCheck(o) /\ EdgeT(<<"O", o, 0, "OCheck">>)
     \/ \E o \in Observers : OWait(o) /\ EdgeT(<<"O", o, 0, "OWait">>)
     \/ \E o \in Observers : OWake(o) /\ EdgeT(<<"O", o, 0, "OWake">>)
     \/ \E o \in Observers : OPeek(o) /\ EdgeT(<<"O", o, 0, "OPeek">>)
     \/ \E o \in Observers : OGo(o) /\ EdgeT(<<"O", o, 0, "OGo">>)
     \/ MonStart /\ EdgeT(<<"MonStart", 0, 0, "MonStart">>)
     \/ Cancel /\ EdgeT(<<"Cancel", 0, 0, "Cancel">>)
     \/ Fire /\ EdgeT(<<"Fire", 0, 0, "Fire">>)
     \/ TChk /\ EdgeT(<<"T", "-", 0, "TChk">>)
     \/ \E v \in (IF TestKind = "task" THEN {"-"} ELSE TestVals) : TTest(v) /\ EdgeT(<<"T", v, 0, "TTest">>)
     \/ TDecide /\ EdgeT(<<"T", "-", 0, "TDecide">>)
     \/ \E out \in ActOuts \ {"fs"} : TAct(out) /\ EdgeT(<<"T", out, 0, "TAct">>)

TaskSpec == TaskInit /\ [][TaskNext]_vars
TaskFair == TaskSpec /\ WF_vars(Frozen1 /\ Waiter) /\ \A o \in Observers : WF_vars(Frozen1 /\ OStep(o))
MonFair == TaskFair /\ WF_vars(Frozen1 /\ Fire) /\ WF_vars(Frozen1 /\ TChk) /\ WF_vars(Frozen1 /\ TDecide)
                    /\ WF_vars(Frozen1 /\ \E v \in TestVals \cup {"-"} : TTest(v))
                    /\ WF_vars(Frozen1 /\ \E out \in ActOuts : TAct(out))

\* ---- what callers rely on (hold)
TaskTypeOK ==
  /\ k \in {"none", "failed", "run", "zombie", "reaped"}
  /\ wpc \in {"none", "new", "blocked", "sys", "post", "fin", "epoch", "done"}
  /\ \A o \in Observers : opc[o] \in {"idle", "new", "saw", "chk", "evwait", "done"}
  /\ dm \in {"off", "tick", "armed", "stopped", "fired", "died"}
  /\ tpc \in {"none", "new", "chk", "tst", "act"}
ViewConsistent ==       \* returncode None iff alive iff no exit reason iff status running; finished iff Success
  LET v == res[2] IN v # NoRes =>
    /\ (v[1] = "T") = (v[2] = NoRc) /\ (v[2] = NoRc) = (v[3] = "None") /\ (v[3] = "None") = (v[4] = "running")
    /\ (v[4] = "finished") = (v[3] = "Success")
RcIsKernelStatus == rc # NoRc => (rc = st /\ k = "reaped")
LockDiscipline == lock = (wpc \in {"blocked", "sys"})
FlagsOrdered == (ev => epoch) /\ (epoch => fin) /\ (fin => rc # NoRc)
WaitReturnsDead == \A o \in Observers : opc[o] = "done" => (seen[o][1] # NoRc /\ seen[o][1] = st)
OwnSignalIsCancelled == (rc # NoRc /\ Len(sigs) > 0 /\ disp = "die" /\ rc = -15) => Reason(rc) = "Cancelled"
RcStable == [][rc # NoRc => rc' = rc]_vars
StatusStable == [][(k \in {"zombie", "reaped"}) => st' = st]_vars
NoSignalAfterKnownDead == [][rc # NoRc => (sigs' = sigs /\ late' = late /\ lost' = lost)]_vars
ExitLeadsToEvent == (k = "zombie") ~> ev
WaitersReturn == \A o \in Observers : (opc[o] \in {"new", "saw", "chk", "evwait"} /\ k # "run") ~> (opc[o] = "done")
HardKillLeadsToDeath == (Len(sigs) > 0 /\ disp = "die") ~> (rc # NoRc)

\* ---- named deviations: strong properties that do NOT hold
KillGivesKilled == (rc # NoRc /\ Len(sigs) > 0 /\ rc = -15) => Reason(rc) = "Killed"
KillLeadsToDeath == (Len(sigs) > 0) ~> (rc # NoRc)
QuerySeesDeath == (res[2] # NoRes /\ res[2][1] = "T") => k = "run"
NoSignalToFreedPid == lost = 0
WaitSeesEpoch == \A o \in Observers : opc[o] = "done" => seen[o][2]

\* ---- the monitor attached to the task
ActionAtMostOnce == nact <= 1
ActionOnlyWhenDead == (TestKind = "task" /\ nact > 0) => rc # NoRc
OneTickAtATime == timers + (IF tpc = "none" THEN 0 ELSE 1) <= 1
ChainStateConsistent == /\ (dm \in {"stopped", "fired", "died"}) => (timers = 0 /\ tpc = "none")
                        /\ (dm = "armed") = (timers = 1) /\ (dm = "tick") = (tpc # "none")
ChainEndIsFinal == [][(dm \in {"stopped", "fired", "died"}) => (dm' = dm /\ nact' = nact /\ timers' = 0)]_vars
NoTickAfterCancelSeen == [][(tpc = "chk" /\ tsaw) => (tpc' \in {"chk", "none"} /\ nact' = nact /\ timers' = 0)]_vars
DeathLeadsToAction == (TestKind = "task" /\ dm # "off" /\ k = "zombie") ~> (nact = 1 \/ cancel)
CancelStopsChain == (cancel /\ dm # "off") ~> (dm \in {"stopped", "fired", "died"})
NoDeathActionAfterCancel == nact > 0 => ~actc                \* deviation ActionAfterCancel
OnlyFalseIsDead == [][nact' > nact => tval \in {"False", "True"}]_vars        \* deviation TruthyIsDead

-----------------------------------------------------------------------------
(* 2. CreateMonitor                                                         *)

PS == <<ppc, pv, pcont, pretry, pnorm, plast, pafter, ppoll, pgap, cancel, nerr>>
EdgeP(l) == Emit => PrintT(ToJson(<<PS, l, PS'>>))

PerInit == TaskIdle /\ MonIdle /\ PerIdle /\ SimIdle /\ TabIdle
Frozen2 == UNCHANGED <<taskVars, dm, tpc, tsaw, tval, timers, nact, terr, actc, simVars, tabVars>>

PStartCall == ppc = "off" /\ ppc' = "new" /\ UNCHANGED <<pv, pcont, pretry, pnorm, plast, pafter, ppoll, pgap, cancel, nerr>>
PCancel == ~cancel /\ cancel' = TRUE /\ UNCHANGED <<ppc, pv, pcont, pretry, pnorm, plast, pafter, ppoll, pgap, nerr>>

\* top of the loop: `if cancelEvent.is_set()`
PTop == ppc' = "c1" /\ pv' = cancel
\* after the read: continueAction / executeAction, then the action is entered (or the loop ends)
PEnter ==
  /\ ppc = "c1"
  /\ pcont' = ~pv
  /\ IF pv /\ ~LastAction THEN ppc' = "done" /\ UNCHANGED <<pnorm, plast, pafter, pgap>>
     ELSE /\ ppc' = "act"
          /\ IF pv THEN plast' = plast + 1 /\ UNCHANGED <<pnorm, pafter>>
                  ELSE pnorm' = pnorm + 1 /\ plast' = plast /\ pafter' = pafter + (IF cancel THEN 1 ELSE 0)
          /\ pgap' = FALSE
  /\ UNCHANGED <<pv, pretry, ppoll, cancel, nerr>>
PAct(out) ==
  /\ ppc = "act"
  /\ CASE out = "ok" -> /\ IF pcont THEN ppc' = "c3" /\ pv' = cancel /\ ppoll' = 0 ELSE ppc' = "done" /\ UNCHANGED <<pv, ppoll>>
                        /\ UNCHANGED <<pretry, nerr>>
       [] out = "exc" -> ppc' = "x5" /\ nerr' = nerr + 1 /\ UNCHANGED <<pv, pretry, ppoll>>
       [] out = "fs" -> IF pretry > 0 THEN ppc' = "x30" /\ pretry' = pretry - 1 /\ nerr' = nerr + 1 /\ UNCHANGED <<pv, ppoll>>
                                     ELSE ppc' = "done" /\ UNCHANGED <<pv, pretry, nerr, ppoll>>      \* `return`: the monitor is gone
  /\ UNCHANGED <<pcont, pnorm, plast, pafter, pgap, cancel>>
\* time passes for a sleeping monitor
PElapse ==
  /\ \/ ppc = "x30" /\ ppc' = "x5" /\ UNCHANGED <<pv, ppoll, pgap>>
     \/ ppc = "x5" /\ (IF pcont THEN PTop ELSE ppc' = "done" /\ pv' = pv) /\ UNCHANGED <<ppoll, pgap>>
     \/ ppc = "poll" /\ ppc' = "c3" /\ pv' = cancel /\ ppoll' = ppoll + 1 /\ pgap' = TRUE
     \/ ppc = "wait" /\ PTop /\ pgap' = TRUE /\ UNCHANGED ppoll                   \* the time-out of cancelEvent.wait(interval)
  /\ UNCHANGED <<pcont, pretry, pnorm, plast, pafter, cancel, nerr>>
\* `while condition():` read
PCond ==
  /\ ppc = "c3"
  /\ IF pv THEN PTop /\ UNCHANGED ppoll
     ELSE IF IntervalKind = "number"
          THEN ppc' = "w0" /\ UNCHANGED <<pv, ppoll>>      \* TypeError: the interval is a number: cancelEvent.wait(interval) is entered
          ELSE ppc' = "ivl" /\ UNCHANGED <<pv, ppoll>>
  /\ UNCHANGED <<pcont, pretry, pnorm, plast, pafter, pgap, cancel, nerr>>
PWaitEnter ==      \* cancelEvent.wait(interval): returns at once when the event is set by now
  /\ ppc = "w0"
  /\ IF cancel THEN PTop ELSE ppc' = "wait" /\ pv' = pv
  /\ UNCHANGED <<pcont, pretry, pnorm, plast, pafter, ppoll, pgap, cancel, nerr>>
PWaitWoken ==      \* cancelEvent.wait(interval) returns because the event was set
  /\ ppc = "wait" /\ cancel /\ PTop
  /\ UNCHANGED <<pcont, pretry, pnorm, plast, pafter, ppoll, pgap, cancel, nerr>>
PInterval(now) ==  \* interval(seconds_waiting) answered
  /\ ppc = "ivl"
  /\ IF now THEN PTop /\ pgap' = TRUE ELSE ppc' = "c8" /\ pv' = cancel /\ pgap' = pgap
  /\ UNCHANGED <<pcont, pretry, pnorm, plast, pafter, ppoll, cancel, nerr>>
PCond2 ==          \* `if not execute_now and condition()`
  /\ ppc = "c8"
  /\ IF pv THEN PTop ELSE ppc' = "poll" /\ pv' = pv
  /\ UNCHANGED <<pcont, pretry, pnorm, plast, pafter, ppoll, pgap, cancel, nerr>>
PFirst == ppc = "new" /\ PTop /\ UNCHANGED <<pcont, pretry, pnorm, plast, pafter, ppoll, pgap, cancel, nerr>>

PThread == PFirst \/ PEnter \/ PCond \/ PWaitEnter \/ PWaitWoken \/ PCond2
PerBound == pnorm < MaxAct /\ ppoll < MaxPoll

PerNext ==
  /\ Frozen2
  /\ \/ PStartCall /\ EdgeP(<<"Start", "-", 0, "PStartCall">>)
     \/ PCancel /\ EdgeP(<<"Cancel", "-", 0, "PCancel">>)
     \/ PerBound /\ PFirst /\ EdgeP(<<"P", "-", 0, "PFirst">>)
     \/ PerBound /\ PEnter /\ EdgeP(<<"P", "-", 0, "PEnter">>)
     \/ PerBound /\ PCond /\ EdgeP(<<"P", "-", 0, "PCond">>)
     \/ PerBound /\ PWaitEnter /\ EdgeP(<<"P", "-", 0, "PWaitEnter">>)
     \/ PerBound /\ PWaitWoken /\ EdgeP(<<"P", "-", 0, "PWaitWoken">>)
     \/ PerBound /\ PCond2 /\ EdgeP(<<"P", "-", 0, "PCond2">>)
     \/ \E out \in ActOuts : PerBound /\ PAct(out) /\ EdgeP(<<"P", out, 0, "PAct">>)
     \/ \E b \in BOOLEAN : PerBound /\ PInterval(b) /\ EdgeP(<<"P", IF b THEN "now" ELSE "later", 0, "PInterval">>)
     \/ PerBound /\ PElapse /\ EdgeP(<<"Elapse", "-", 0, "PElapse">>)

PerSpec == PerInit /\ [][PerNext]_vars
PerFair == PerSpec /\ WF_vars(Frozen2 /\ PerBound /\ PThread) /\ WF_vars(Frozen2 /\ PerBound /\ PElapse)
                   /\ WF_vars(Frozen2 /\ \E out \in ActOuts : PerBound /\ PAct(out))
                   /\ WF_vars(Frozen2 /\ \E b \in BOOLEAN : PerBound /\ PInterval(b))

PerTypeOK == ppc \in {"off", "new", "c1", "act", "x5", "x30", "c3", "w0", "wait", "ivl", "c8", "poll", "done"}
LastAtMostOnce == plast <= 1
LastOnlyAfterCancel == plast > 0 => cancel
NoLastWhenDisabled == ~LastAction => plast = 0
NothingAfterLast == [][plast = 1 => (pnorm' = pnorm /\ plast' = 1)]_vars
AtMostOneNormalAfterCancel == pafter <= 1
EndsOnlyWhenCancelledOrBroken == ppc = "done" => (cancel \/ pretry = 0)
ErrorsAreTracked == [][(nerr' \in {nerr, nerr + 1})]_vars
CancelLeadsToEnd == (cancel /\ ppc # "off") ~> (ppc = "done" \/ ~PerBound)
\* deviations
NoNormalActionAfterCancel == pafter = 0
IntervalBetweenActions == [][(pnorm' > pnorm /\ pnorm > 0) => pgap]_vars
CancelLeadsToLastAction == (LastAction /\ cancel /\ ppc # "off") ~> (plast = 1 \/ ~PerBound)

-----------------------------------------------------------------------------
(* 3. SimulatorTask                                                         *)
(* srs/srr: _real_state/_real_return_code (written by the thread _run and   *)
(* by kill()), sos/sor: _observed_state/_observed_return_code (written by   *)
(* the poll threads, read by isAlive/returncode/exitReason/status), sfe:    *)
(* _finished_event.  A step of a thread runs its statements until one of    *)
(* them changes this state, or the thread blocks or ends.                   *)
(*   srun  (_run): new -> sleep (scheduling overhead) -> x1 (condition lock *)
(*         taken, state executing) -> cwait (Condition.wait(exec_time), lock*)
(*         released) | u1 (unmet dependencies: code 1) -> e2 (state         *)
(*         finished) -> e3 (code := expected) -> f1 (finished.txt) -> done  *)
(*         or e2 -> k1 (code already set: killed.txt) -> done               *)
(*   spoll (poll): A: observed code := real code; B: observed state := real *)
(*         state; C: observed code := real code; D: not alive -> event set, *)
(*         alive -> sleep 1 s, then a NEW poll thread                       *)
(*   scall (kill() == terminate()): if isAlive(): real code := -9; with the *)
(*         condition lock: notify if executing                              *)

SS == <<srs, srr, sos, sor, sfe, srun, spoll, snpoll, scode, sunmet, snotified, skills, sfile, scall, swait, sseen, spst>>
EdgeS(l) == Emit => PrintT(ToJson(<<SS, l, SS'>>))
SimInit == TaskIdle /\ MonIdle /\ PerIdle /\ SimIdle /\ TabIdle
Frozen3 == UNCHANGED <<taskVars, monVars, perVars, tabVars>>

SimAlive == sos \in {"submitted", "executing"}
SimLockHeld == srun \in {"x1", "u1", "e2", "e2n", "e3", "f1", "k1", "e4"}
SimReason(r) == IF r = NoRc THEN "raised TypeError" ELSE ReasonSim(r)
\* <<isAlive(), returncode, exitReason, status>>
SimView == IF SimAlive THEN <<"T", sor, "None", "running">> ELSE <<"F", sor, SimReason(sor), StatusOf(IF sor = NoRc THEN 1 ELSE sor)>>

SCreate(c, u) ==
  /\ srs = "none"
  /\ srs' = "submitted" /\ sos' = "submitted" /\ srun' = "new" /\ spoll' = "new" /\ scode' = c /\ sunmet' = u
  /\ UNCHANGED <<srr, sor, sfe, snpoll, snotified, skills, sfile, scall, swait, sseen, spst>>

SRunStart == srun = "new" /\ srun' = "sleep" /\ UNCHANGED <<srs, srr, snotified, sfile>>
SRunWake == srun = "sleep" /\ srs' = "executing" /\ srun' = "x1" /\ UNCHANGED <<srr, snotified, sfile>>      \* the overhead has passed
SRunExec ==
  /\ srun = "x1"
  /\ IF sunmet THEN srr' = 1 /\ srun' = "u1" /\ snotified' = snotified
               ELSE srr' = srr /\ srun' = "cwait" /\ snotified' = FALSE
  /\ UNCHANGED <<srs, sfile>>
SRunResume ==     \* the execution time has passed, or kill() notified the condition
  /\ srun \in {"cwait", "u1"}
  /\ IF ~SimStateLast THEN srs' = "finished" /\ srun' = "e2" /\ UNCHANGED <<srr, sfile>>
     ELSE IF srr = NoRc THEN srr' = scode /\ srun' = "e3" /\ UNCHANGED <<srs, sfile>>
     ELSE sfile' = "killed" /\ srun' = "k1" /\ UNCHANGED <<srs, srr>>
  /\ UNCHANGED snotified
SRunCode ==
  /\ ~SimStateLast /\ srun = "e2"
  /\ IF srr = NoRc THEN srr' = scode /\ srun' = "e3" /\ sfile' = sfile
                   ELSE srr' = srr /\ srun' = "k1" /\ sfile' = "killed"
  /\ UNCHANGED <<srs, snotified>>
SRunPeek == Fine /\ srun = "e2" /\ srr = NoRc /\ srun' = "e2n" /\ UNCHANGED <<srs, srr, snotified, sfile>>    \* `if _real_return_code is None` passed
SRunCodeLate == srun = "e2n" /\ srr' = scode /\ srun' = "e3" /\ UNCHANGED <<srs, snotified, sfile>>           \* ... a kill() in between is overwritten
SRunFile == srun = "e3" /\ sfile' = "finished" /\ srun' = "f1" /\ UNCHANGED <<srs, srr, snotified>>
SRunState == SimStateLast /\ srun \in {"f1", "k1"} /\ srs' = "finished" /\ srun' = "e4" /\ UNCHANGED <<srr, snotified, sfile>>
SRunLast == IF SimStateLast THEN {"e4"} ELSE {"f1", "k1"}
SRunEnd == srun \in SRunLast \cup {"rel"} /\ srun' = "done" /\ UNCHANGED <<srs, srr, snotified, sfile>>
SRunRel == Fine /\ srun \in SRunLast /\ srun' = "rel" /\ UNCHANGED <<srs, srr, snotified, sfile>>     \* the lock is released, _run has not yet returned
SRun == /\ (SRunStart \/ SRunWake \/ SRunExec \/ SRunResume \/ SRunCode \/ SRunFile \/ SRunState \/ SRunEnd \/ SRunRel \/ SRunPeek \/ SRunCodeLate)
        /\ UNCHANGED <<sos, sor, sfe, spoll, snpoll, scode, sunmet, skills, scall, swait, sseen, spst>>

\* the code as it is: A: observed code := real code; B: observed state := real state; C: observed code := real code; D
SPollStepOld ==
  /\ spoll \in {"new", "a", "b", "c"}
  /\ LET from == CASE spoll = "new" -> 1 [] spoll = "a" -> 2 [] spoll = "b" -> 3 [] OTHER -> 4
         doA == from = 1 /\ sor # srr
         doB == ~doA /\ from <= 2 /\ sos # srs
         doC == ~doA /\ ~doB /\ from <= 3 /\ sor # srr
     IN CASE doA -> sor' = srr /\ spoll' = "a" /\ UNCHANGED <<sos, sfe>>
          [] doB -> sos' = srs /\ spoll' = "b" /\ UNCHANGED <<sor, sfe>>
          [] doC -> sor' = srr /\ spoll' = "c" /\ UNCHANGED <<sos, sfe>>
          [] OTHER -> IF SimAlive THEN spoll' = "sleep" /\ UNCHANGED <<sos, sor, sfe>>
                                  ELSE spoll' = "done" /\ sfe' = TRUE /\ UNCHANGED <<sos, sor>>
  /\ UNCHANGED <<srs, srr, srun, snpoll, scode, sunmet, snotified, skills, sfile, scall, swait, sseen, spst>>
\* the repaired poll(): real state read into a local (spst); A: observed code := real code; B: observed state := that local; D
SPollStepNew ==
  /\ spoll \in {"new", "r", "a", "b"}
  /\ LET read == IF spoll = "new" THEN srs ELSE spst
         doA == spoll \in {"new", "r"} /\ sor # srr
         doB == ~doA /\ spoll \in {"new", "r", "a"} /\ sos # read
     IN /\ spst' = read
        /\ CASE doA -> sor' = srr /\ spoll' = "a" /\ UNCHANGED <<sos, sfe>>
             [] doB -> sos' = read /\ spoll' = "b" /\ UNCHANGED <<sor, sfe>>
             [] OTHER -> IF SimAlive THEN spoll' = "sleep" /\ UNCHANGED <<sos, sor, sfe>>
                                     ELSE spoll' = "done" /\ sfe' = TRUE /\ UNCHANGED <<sos, sor>>
  /\ UNCHANGED <<srs, srr, srun, snpoll, scode, sunmet, snotified, skills, sfile, scall, swait, sseen>>
SPollStep == IF SimStateLast THEN SPollStepNew ELSE SPollStepOld
SPollStmt ==       \* Fine: a statement of poll() that finds nothing to copy
  /\ Fine
  /\ IF SimStateLast
     THEN \/ spoll = "new" /\ spoll' = "r" /\ spst' = srs                      \* real_state = self._real_state
          \/ spoll = "r" /\ sor = srr /\ spoll' = "a" /\ spst' = spst
          \/ spoll = "a" /\ sos = spst /\ spoll' = "b" /\ spst' = spst
     ELSE /\ \/ spoll = "new" /\ sor = srr /\ spoll' = "a"
             \/ spoll = "a" /\ sos = srs /\ spoll' = "b"
             \/ spoll = "b" /\ sor = srr /\ spoll' = "c"
          /\ spst' = spst
  /\ UNCHANGED <<srs, srr, sos, sor, sfe, srun, snpoll, scode, sunmet, snotified, skills, sfile, scall, swait, sseen>>
SPollNext ==
  /\ spoll = "sleep" /\ snpoll < MaxSimPoll /\ spoll' = "new" /\ snpoll' = snpoll + 1
  /\ UNCHANGED <<srs, srr, sos, sor, sfe, srun, scode, sunmet, snotified, skills, sfile, scall, swait, sseen, spst>>
SPoll == SPollStep \/ SPollNext \/ SPollStmt

\* kill() / terminate() by a thread of the owner
SKillCall(w) ==
  /\ srs # "none" /\ skills < MaxKill /\ scall \in {"idle", "done"} /\ skills' = skills + 1 /\ scall' = "new"
  /\ UNCHANGED <<srs, srr, sos, sor, sfe, srun, spoll, snpoll, scode, sunmet, snotified, sfile, swait, sseen, spst>>
SKillNotify == snotified' = (snotified \/ (srs = "executing" /\ srun = "cwait"))
SKillStep ==
  /\ \/ /\ scall = "new"
        /\ IF ~SimAlive THEN scall' = "done" /\ UNCHANGED <<srr, snotified>>
           ELSE IF srr # -9 THEN srr' = -9 /\ scall' = "k1" /\ snotified' = snotified
           ELSE /\ srr' = srr
                /\ IF SimLockHeld THEN scall' = "lock" /\ snotified' = snotified ELSE scall' = "done" /\ SKillNotify
     \/ /\ scall = "k1" /\ srr' = srr
        /\ IF SimLockHeld THEN scall' = "lock" /\ snotified' = snotified ELSE scall' = "done" /\ SKillNotify
     \/ /\ scall = "lock" /\ ~SimLockHeld /\ srr' = srr /\ scall' = "done" /\ SKillNotify
  /\ UNCHANGED <<srs, sos, sor, sfe, srun, spoll, snpoll, scode, sunmet, skills, sfile, swait, sseen, spst>>
\* a thread calling wait()
SWaitCall == srs # "none" /\ swait = "idle" /\ swait' = "new"
             /\ UNCHANGED <<srs, srr, sos, sor, sfe, srun, spoll, snpoll, scode, sunmet, snotified, skills, sfile, scall, sseen, spst>>
SWaitStep ==
  /\ \/ swait = "new" /\ swait' = "chk" /\ sseen' = sseen
     \/ swait = "chk" /\ (IF sfe THEN swait' = "done" /\ sseen' = SimView ELSE swait' = "blocked" /\ sseen' = sseen)
     \/ swait = "blocked" /\ sfe /\ swait' = "done" /\ sseen' = SimView
  /\ UNCHANGED <<srs, srr, sos, sor, sfe, srun, spoll, snpoll, scode, sunmet, snotified, skills, sfile, scall, spst>>
SQuery == srs # "none" /\ UNCHANGED SS

\* Condition.wait(exec_time) returns when notified or when the time is over; sleep(overhead) when the time is over
SimRunHow == IF srun \in {"sleep", "cwait"} /\ ~(srun = "cwait" /\ snotified) THEN "timeout" ELSE "-"
SimRest == UNCHANGED <<sos, sor, sfe, spoll, snpoll, scode, sunmet, skills, scall, swait, sseen, spst>>
SimNext ==
  /\ Frozen3
  /\ \/ \E c \in SimCodes, u \in SimUnmet : SCreate(c, u) /\ EdgeS(<<"Create", c, u, "SCreate">>)
     \/ SRunStart /\ SimRest /\ EdgeS(<<"R", SimRunHow, 0, "SRunStart">>)
     \/ SRunWake /\ SimRest /\ EdgeS(<<"R", SimRunHow, 0, "SRunWake">>)
     \/ SRunExec /\ SimRest /\ EdgeS(<<"R", SimRunHow, 0, "SRunExec">>)
     \/ SRunResume /\ SimRest /\ EdgeS(<<"R", SimRunHow, 0, "SRunResume">>)
     \/ SRunCode /\ SimRest /\ EdgeS(<<"R", SimRunHow, 0, "SRunCode">>)
     \/ SRunFile /\ SimRest /\ EdgeS(<<"R", SimRunHow, 0, "SRunFile">>)
     \/ SRunState /\ SimRest /\ EdgeS(<<"R", SimRunHow, 0, "SRunState">>)
     \/ SRunEnd /\ SimRest /\ EdgeS(<<"R", SimRunHow, 0, "SRunEnd">>)
     \/ (SRunRel \/ SRunPeek \/ SRunCodeLate) /\ SimRest /\ EdgeS(<<"R", SimRunHow, 0, "SRunFine">>)
     \/ SPollStep /\ EdgeS(<<"P", "-", 0, "SPollStep">>)
     \/ SPollNext /\ EdgeS(<<"P", "timeout", 0, "SPollNext">>)
     \/ SPollStmt /\ EdgeS(<<"P", "-", 0, "SPollStmt">>)
     \/ \E w \in {"kill", "terminate"} : SKillCall(w) /\ EdgeS(<<"Kill", w, 0, "SKillCall">>)
     \/ SKillStep /\ EdgeS(<<"K", "-", 0, "SKillStep">>)
     \/ SWaitCall /\ EdgeS(<<"WaitCall", "-", 0, "SWaitCall">>)
     \/ SWaitStep /\ EdgeS(<<"O", "-", 0, "SWaitStep">>)
     \/ SQuery /\ EdgeS(<<"View", "-", SimView, "SQuery">>)
SimSpec == SimInit /\ [][SimNext]_vars
SimFair == SimSpec /\ WF_vars(Frozen3 /\ SRun) /\ WF_vars(Frozen3 /\ SPoll) /\ WF_vars(Frozen3 /\ SKillStep) /\ WF_vars(Frozen3 /\ SWaitStep)

SimTypeOK == /\ srs \in {"none", "submitted", "executing", "finished"} /\ sos \in {"none", "submitted", "executing", "finished"}
             /\ srun \in {"none", "new", "sleep", "x1", "cwait", "u1", "e2", "e2n", "e3", "f1", "k1", "e4", "rel", "done"}
             /\ spoll \in {"none", "new", "r", "a", "b", "c", "sleep", "done"} /\ scall \in {"idle", "new", "k1", "lock", "done"}
SimEventOnlyWhenDead == sfe => ~SimAlive
SimObservedFollowsReal == (sos = "finished" => srs = "finished") /\ (sos = "executing" => srs \in {"executing", "finished"})
SimObservedCodeWasReal == sor \in {NoRc, scode, -9, 1}
SimKilledOrExpected == (srun = "done" /\ ~sunmet) => srr \in {scode, -9}
SimDeadIsFinal == [][sfe => (sfe' /\ sos' = sos /\ sor' = sor)]_vars      \* what the owner sees is final once the event is set
SimWaitReturnsDead == swait = "done" => sseen[1] = "F"
SimEndLeadsToEvent == (srs = "finished") ~> (sfe \/ snpoll = MaxSimPoll)
SimKillLeadsToEnd == (skills > 0 /\ scall = "done" /\ srr = -9) ~> (srs = "finished")
\* deviations
SimDeadHasCode == (sos = "finished") => sor # NoRc                          \* SimTornPoll (finding)
SimCodeOnlyWhenDead == sor # NoRc => ~SimAlive                              \* SimCodeBeforeState
SimFinishedStaysFinished == [][(sfile = "finished") => srr' = srr]_vars     \* SimKillRewritesExit
SimKillAbortsExecution == [][(srr = -9 /\ srun = "x1") => srun' # "cwait"]_vars    \* SimKillWaitsOut
SimKillSticks == [][(srr = -9) => srr' \in {-9, 1}]_vars                    \* SimKillLost (statement level: Fine)

-----------------------------------------------------------------------------
(* 4. returncode -> exitReason / status, every code the implementations      *)
(*    distinguish and all others in -64..255                                *)

TabInit == TaskIdle /\ MonIdle /\ PerIdle /\ SimIdle /\ tabc = -64 /\ trk = <<>> /\ tnow = 0
TabNext == tabc < 255 /\ tabc' = tabc + 1 /\ UNCHANGED <<taskVars, monVars, perVars, simVars, trk, tnow>>
TabSpec == TabInit /\ [][TabNext]_vars
TabEmit == PrintT(ToJson([rc |-> tabc, local |-> ReasonLocal(tabc), sim |-> ReasonSim(tabc), status |-> StatusOf(tabc)]))
\* the table is a partition by meaning (what experiment.model.codes says about the reasons)
TabSane ==
  /\ (ReasonLocal(tabc) = "Success") = (tabc = 0) /\ (ReasonSim(tabc) = "Success") = (tabc = 0)
  /\ (StatusOf(tabc) = "finished") = (tabc = 0)
  /\ tabc > 0 => ReasonLocal(tabc) = "KnownIssue"
  /\ tabc < 0 => ReasonLocal(tabc) \in {"Killed", "Cancelled", "ResourceExhausted", "UnknownIssue"}
  /\ (ReasonLocal(tabc) = "Killed") = (tabc = -9) /\ (ReasonSim(tabc) = "Killed") = (tabc = -9)

-----------------------------------------------------------------------------
(* 5. MonitorExceptionTracker.isSystemStable(timeFrame)                      *)
(* trk: the recorded exceptions <<time, kind>>; kinds: what was handed to    *)
(* addException: "fs" FilesystemInconsistencyError, "sys" the builtin        *)
(* SystemError, "msys" experiment.model.errors.SystemError, "other"; "a:" +   *)
(* kind: a MonitorActionError whose underlying error is of that kind         *)

Kinds == {"fs", "sys", "msys", "other", "a:fs", "a:sys", "a:msys", "a:other"}
IsSystem(kd) == kd \in {"fs", "sys", "a:fs", "a:sys"}      \* runtime.errors.systemErrors = [builtin SystemError, FilesystemInconsistencyError]
Stable(tf) == ~\E i \in 1..Len(trk) : IsSystem(trk[i][2]) /\ trk[i][1] > tnow - tf
TrkInit == TaskIdle /\ MonIdle /\ PerIdle /\ SimIdle /\ tabc = 0 /\ trk = <<>> /\ tnow = 0
Gaps == {0, 29, 30, 31, 119, 120, 121, 179, 180, 181}
\* tabc is the phase: 0 add, 1 time passes, 2 add or not, 3 time passes, 4 ask
TrkNext == /\ UNCHANGED <<taskVars, monVars, perVars, simVars>>
           /\ tabc < 4 /\ tabc' = tabc + 1
           /\ CASE tabc = 0 -> \E kd \in Kinds : trk' = Append(trk, <<tnow, kd>>) /\ tnow' = tnow
                [] tabc = 2 -> (\E kd \in Kinds : trk' = Append(trk, <<tnow, kd>>) /\ tnow' = tnow) \/ UNCHANGED <<trk, tnow>>
                [] OTHER -> \E dt \in Gaps : tnow' = tnow + dt /\ trk' = trk
TrkSpec == TrkInit /\ [][TrkNext]_vars
TrkEmit == tabc = 4 => PrintT(ToJson([trk |-> trk, now |-> tnow, stable |-> [tf \in {30, 120, 180} |-> Stable(tf)]]))
=============================================================================
