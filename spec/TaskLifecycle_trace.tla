------------------------- MODULE TaskLifecycle_trace -------------------------
(***************************************************************************)
(* Trace validation for TaskLifecycle.tla (code -> spec).                  *)
(*                                                                         *)
(* harness/world_g04.py runs the REAL LocalTask (on a fake kernel) with an *)
(* attached death/event monitor, the REAL CreateMonitor thread and the REAL *)
(* SimulatorTask under seeded random lock-stepped interleavings -- thread   *)
(* steps down to single source lines -- and logs one record per step: the   *)
(* action of the environment / the thread that ran, the result of an API    *)
(* call, and the projection of the real state after the step.  A record is  *)
(* matched by                                                               *)
(*      Step(action)  /\  projection of vars' = logged projection.          *)
(* A thread step that executed lines without touching the modelled state    *)
(* is a stuttering step of the specification.  Hidden (searched by TLC):    *)
(* the position of a runnable thread between two modelled statements, the   *)
(* thread-local variables of the CreateMonitor loop, the call site of a     *)
(* cancelEvent.is_set().  Many runs per TLC invocation (tid); the furthest  *)
(* matched step per run is kept in a TLC register; the POSTCONDITION lists  *)
(* the runs that were not matched to their end.                             *)
(***************************************************************************)
EXTENDS TaskLifecycle, TaskTraceData

(* TaskTraceData (generated per batch):  Kind == "task" | "per" | "sim";  Traces == << run, ... >>,               *)
(* run == << <<op, arg, result, projection>>, ... >>                                                              *)

VARIABLES tid, l
tvars == <<vars, tid, l>>
T == Traces[tid]

Stutter == UNCHANGED vars

\* ---- LocalTask + attached monitor
WCoarse(w) == CASE w = "none" -> "none" [] w \in {"new", "post", "fin", "epoch"} -> "r" [] w = "blocked" -> "b" [] w = "sys" -> "s" [] OTHER -> "d"
OCoarse == [o \in Observers |-> IF opc[o] = "saw" THEN "new" ELSE opc[o]]
ProjT == <<k, st, disp, rc, lock, WCoarse(wpc), fin, epoch, ev, OCoarse, seen, sigs, late, lost,
           dm, tpc, tsaw, tval, cancel, timers, nact, nerr, terr, actc>>
StepT(e) ==
  /\ Frozen1
  /\ CASE e[1] = "Create" -> IF e[2] = "fail" THEN Create("die", FALSE) ELSE Create(e[2], TRUE)
       [] e[1] = "ProcExit" -> ProcExit(e[2])
       [] e[1] = "ExtSignal" -> ExtSignal(e[2])
       [] e[1] = "Call" -> IF e[2] \in {"kill", "terminate"} THEN KillCall(e[2]) /\ e[3] = NoRes
                                                              ELSE Query(e[2]) /\ res'[2] = e[3]
       [] e[1] = "W" -> Waiter \/ Stutter
       [] e[1] = "WaitCall" -> WaitCall(e[2])
       [] e[1] = "O" -> OStep(e[2]) \/ Stutter
       [] e[1] = "MonStart" -> MonStart
       [] e[1] = "Cancel" -> Cancel
       [] e[1] = "Fire" -> Fire
       [] e[1] = "T" -> TChk \/ TTest(e[2]) \/ TDecide \/ TAct(e[2])
       [] OTHER -> FALSE

\* ---- CreateMonitor
PCoarse(p) == IF p \in {"c1", "c3", "c8"} THEN "isset" ELSE p
ProjP == <<PCoarse(ppc), pv, pnorm, plast, pafter, cancel, nerr, IF ppc = "ivl" THEN ppoll ELSE -1>>
StepP(e) ==
  /\ Frozen2
  /\ CASE e[1] = "Start" -> PStartCall
       [] e[1] = "Cancel" -> PCancel
       [] e[1] = "P" -> CASE e[2] = "-" -> PThread
                          [] e[2] \in {"ok", "exc", "fs"} -> PAct(e[2])
                          [] e[2] \in {"now", "later"} -> PInterval(e[2] = "now")
                          [] OTHER -> FALSE
       [] e[1] = "Elapse" -> PElapse
       [] OTHER -> FALSE

\* ---- SimulatorTask
RunCoarse(p) == CASE p = "cwait" -> "condwait" [] p \in {"new", "x1", "u1", "e2", "e2n", "e3", "f1", "k1", "e4", "rel"} -> "ready" [] OTHER -> p
PollCoarse(p) == IF p \in {"new", "r", "a", "b", "c"} THEN "ready" ELSE p
ProjS == <<srs, srr, sos, sor, sfe, RunCoarse(srun), PollCoarse(spoll), snpoll, sfile, IF scall \in {"new", "k1"} THEN "ready" ELSE scall,
           CASE swait = "blocked" -> "evwait" [] swait = "new" -> "ready" [] OTHER -> swait, sseen, SimLockHeld, skills>>
StepS(e) ==
  /\ Frozen3
  /\ CASE e[1] = "Create" -> SCreate(e[2], e[3])
       [] e[1] = "R" -> SRun \/ Stutter
       [] e[1] = "P" -> SPoll \/ Stutter
       [] e[1] = "Kill" -> SKillCall(e[2])
       [] e[1] = "K" -> SKillStep \/ Stutter
       [] e[1] = "WaitCall" -> SWaitCall
       [] e[1] = "O" -> SWaitStep \/ Stutter
       [] e[1] = "View" -> SQuery /\ e[3] = SimView
       [] OTHER -> FALSE

TraceInit == TaskInit /\ tid \in 1..Len(Traces) /\ l = 0

TraceNext ==
  /\ l < Len(T) /\ l' = l + 1 /\ tid' = tid
  /\ LET e == T[l + 1] IN
       CASE Kind = "task" -> StepT(e) /\ ProjT' = e[4]
         [] Kind = "per" -> StepP(e) /\ ProjP' = e[4]
         [] Kind = "sim" -> StepS(e) /\ ProjS' = e[4]

TraceSpec == TraceInit /\ [][TraceNext]_tvars

Furthest == TLCSet(tid, l)
AllAccepted ==
  LET bad == {t \in 1..Len(Traces) : TLCGet(t) # Len(Traces[t])} IN
  \/ bad = {}
  \/ PrintT(<<"REJECTED", [t \in bad |-> TLCGet(t)]>>) /\ FALSE

(* the safety properties of TaskLifecycle.tla, evaluated along the matched behaviours, i.e. on the logged real states *)
TInv == CASE Kind = "task" -> ViewConsistent /\ RcIsKernelStatus /\ LockDiscipline /\ FlagsOrdered /\ WaitReturnsDead
                               /\ ActionAtMostOnce /\ ActionOnlyWhenDead /\ OneTickAtATime
          [] Kind = "per" -> LastAtMostOnce /\ LastOnlyAfterCancel /\ NoLastWhenDisabled /\ AtMostOneNormalAfterCancel
          [] Kind = "sim" -> SimEventOnlyWhenDead /\ SimObservedFollowsReal /\ SimWaitReturnsDead
=============================================================================
