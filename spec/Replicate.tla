------------------------------ MODULE Replicate ------------------------------
(***************************************************************************)
(* C03 -- Replication expands a workflow without changing its dataflow.    *)
(*                                                                         *)
(* The state is ONE abstract workflow that is built component by component *)
(* (actions AddComponent / AddRef) and then expanded (action Expand, the   *)
(* abstract counterpart of FlowIR.apply_replicate as it is reached through *)
(* WorkflowGraph.graphFromFlowIR(..., primitive=False) and                 *)
(* FlowIRConcrete.replicate()).  Every reachable "build" state is itself a *)
(* workflow of the family, so TLC's state graph *is* the input space and   *)
(* every "expanded" state is one conformance case (input, expected result).*)
(*                                                                         *)
(* A component: name (from the adversarial alphabet Names: names that are  *)
(* suffixes/prefixes of each other, names ending in a digit that collide   *)
(* with replica suffixes, dotted/dashed names, the same name in two stages)*)
(* stage, replicate request (none / literal 1,2,3,11 / through a variable   *)
(* defined at global, stage or component scope -- also by OTHER stages and *)
(* by SIBLING components with other values, which must not leak; on the    *)
(* default platform or on platform "other", whose global scope beats the   *)
(* default platform's stage scope -- the layering of Layering.tla), aggregate*)
(* flag (literal or through a variable with the same scoping), and an      *)
(* ordered list of references to components built earlier (so the workflow *)
(* is acyclic by construction; the document order fed to the code is the   *)
(* build order or its reverse -- variable `order`).                        *)
(* A component may reference the same producer several times (different    *)
(* file, method or spelling), next to references to other producers.       *)
(* A reference: producer (index), spelling in the `references` list        *)
(* (relative `name:m` / absolute `stageS.name:m`), optional file path      *)
(* inside the producer (`name/path:m`), method, and the style in which the *)
(* command-line arguments mention it (same spelling, the other spelling,   *)
(* followed by a path `name:m/sub/f.txt`, twice with two different paths). *)
(*                                                                         *)
(* Two definitions of which components get how many replicas:              *)
(*   - declarative: Counts / InRegion / Replicated (downstream closure of  *)
(*     the replication points, stopped by aggregating components);         *)
(*   - operational: Propagate (one pass in topological order, as           *)
(*     FlowIR.propagate_replicate does).                                   *)
(* and the expansion Expansion(ws) = status + list of nodes (name, replica *)
(* index, count, references, argument tokens).  Names of copies are really *)
(* computed (name \o ToString(i)) so that a copy colliding with a declared *)
(* component ("a" x 2 next to "a0") is visible in the model.               *)
(*                                                                         *)
(* Binding (harness/checks/c03.py): the constants select a slice of the    *)
(* family; every expanded state is printed (EmitCase), rendered to FlowIR  *)
(* (harness/wf_io.py) and executed; the real nodes / edges / references /  *)
(* argument tokens / replica variable are compared with `out`.             *)
(* Validate.tla (C11) EXTENDS this module and re-uses the builder.         *)
(***************************************************************************)
EXTENDS Integers, Sequences, FiniteSets, TLC, Json

CONSTANTS Names,        \* set of strings: component names
          Stages,       \* set of stage indices, {0} or {0,1}
          RepChoices,   \* subset of {"none","n1","n2","n3","n11","vg","vs","vc"}
          AggChoices,   \* subset of BOOLEAN
          Spellings,    \* subset of {"rel","abs"}
          Paths,        \* subset of {"", "out.txt", "d/f.x"}   ("" = no file path)
          Methods,      \* subset of {"ref","copy","output", ...}
          ArgStyles,    \* subset of {"same","flip","tail","tail2"}
          DocOrders,    \* subset of {"fwd","rev"}: order of the components in the document given to the code
          MaxComps,     \* number of components of a workflow: 1..MaxComps
          MaxRefs,      \* references per component
          MaxSame,      \* references of one component to the SAME producer (they differ in file path, method or spelling)
          PrivChoices,  \* subset of 0..3: value v > 0 = the component defines rg, rs, rc = v (and ag = "v is odd") privately
          OvrPrivChoices, \* subset of 0..3: value v > 0 = the component's OVERRIDE for platform "other" defines rg = rs = rc = v
                        \*                (and ag = "v is odd"): the highest-priority scope, only visible when "other" is loaded
          AggVarChoices,\* subset of BOOLEAN: TRUE = the aggregate flag is given through the variable `ag`
          StageVals0,   \* subset of 0..3: value v > 0 = the stage-0 scope defines rs = v (and ag = "v is odd")
          StageVals1,   \*   "  for the stage-1 scope
          Platforms,    \* subset of {0, 1}: the platform the workflow is loaded for: 0 = default, 1 = the platform "other"
          PlatGlobalVals, \* subset of 0..3: value v > 0 = the GLOBAL scope of platform "other" defines rg = rs = rc = v (ag = odd(v))
          PlatStageVals0, \* subset of 0..3: value v > 0 = the stage-0 scope of platform "other" defines rs = v (ag = odd(v))
          PlatStageVals1, \*   "  for its stage-1 scope
          MsgStageVals, \* subset of 0..2, only used by Validate.tla (C11): 1 + the stage whose scope ALSO defines the variable
                        \* `msg` the last component uses in its arguments (0 = no stage scope defines it); {0} for C03
          FixedNames,   \* TRUE: the i-th component built takes the i-th of the well-separated names p, q, r, s
                        \*       (shape slices: no permutations of interchangeable names)
          Emit          \* TRUE: print every expanded state as JSON for the conformance driver

VARIABLES comps,    \* Seq of [name, stage, rep, agg, refs, priv, aggv, opriv]; refs: Seq of [p, sp, path, m, st]
          svals,    \* <<v0, v1, plat, pg, ps0, ps1, mst>> chosen in Init (0 = nothing): what the stage-0 / stage-1 scopes of the default
                    \* platform define, the platform loaded, what platform "other" defines globally and in its two stage scopes
          phase,    \* "build" | "expanded"
          order,    \* document order of the case ("fwd" until Expand chooses)
          out       \* Expansion(comps) once expanded
rvars == <<comps, svals, phase, order, out>>

---------------------------------------------------------------------------
(* Variables through which a replica count (rg, rs, rc) or the aggregate flag (ag) may be given, and the documented     *)
(* layering (the one of spec/Layering.tla, which instance() / get_component_variables implement), lowest priority first: *)
(*     default global < default stage < selected-platform global < selected-platform stage < the component's own         *)
(*     < the component's override for the selected platform                                                              *)
(* A component sees its OWN variables, then those of its OWN stage, then the global ones; a GLOBAL definition of the      *)
(* selected platform beats a STAGE definition of the default platform.  Nothing a component or a stage defines is visible *)
(* to a sibling component, to another stage or to the global scope, and what platform "other" defines is invisible when   *)
(* the workflow is loaded for the default platform (the definitions are in the document all the same: decoys).            *)
(*   default global:  rg = 2, rs = 3, rc = 3, ag = false                                                                 *)
(*   default stage s: rs = v and ag = odd(v) when svals[s + 1] = v > 0 (own stage AND other stage, different values)      *)
(*   other global:    rg = rs = rc = v and ag = odd(v) when svals[4] = v > 0                                              *)
(*   other stage s:   rs = v and ag = odd(v) when svals[5 + s] = v > 0                                                    *)
(*   component scope: rg = rs = rc = v and ag = odd(v) when the component's priv = v > 0; a component with rep = "vc"     *)
(*                    defines rc = 2 itself.  Siblings (same or other stage) may define other values: they must not leak. *)
(*   override scope:  rg = rs = rc = v and ag = odd(v) when the component's opriv = v > 0 AND platform "other" is loaded  *)
(*                    (`override: {other: {variables: ...}}`; a decoy when the default platform is loaded)               *)
GlobalScope == [v \in {"rg", "rs", "rc"} |-> IF v = "rg" THEN 2 ELSE 3]
StageVal(s) == svals[s + 1]
OnOther == svals[3] = 1
PlatGlobalVal == IF OnOther THEN svals[4] ELSE 0
PlatStageVal(s) == IF OnOther THEN svals[5 + s] ELSE 0
StageScope(s) == IF StageVal(s) > 0 THEN [v \in {"rs"} |-> StageVal(s)] ELSE [v \in {} |-> 0]
PlatGlobalScope == IF PlatGlobalVal > 0 THEN [v \in {"rg", "rs", "rc"} |-> PlatGlobalVal] ELSE [v \in {} |-> 0]
PlatStageScope(s) == IF PlatStageVal(s) > 0 THEN [v \in {"rs"} |-> PlatStageVal(s)] ELSE [v \in {} |-> 0]
CompScope(rep, pv) == [v \in (IF pv > 0 THEN {"rg", "rs", "rc"} ELSE {}) \cup (IF rep = "vc" THEN {"rc"} ELSE {}) |->
                         IF v = "rc" /\ rep = "vc" THEN 2 ELSE pv]
VarOf(rep) == CASE rep = "vg" -> "rg" [] rep = "vs" -> "rs" [] rep = "vc" -> "rc"
Lookup(v, s, rep, pv, ov) == IF OnOther /\ ov > 0 THEN ov
                         ELSE IF v \in DOMAIN CompScope(rep, pv) THEN CompScope(rep, pv)[v]
                         ELSE IF v \in DOMAIN PlatStageScope(s) THEN PlatStageScope(s)[v]
                         ELSE IF v \in DOMAIN PlatGlobalScope THEN PlatGlobalScope[v]
                         ELSE IF v \in DOMAIN StageScope(s) THEN StageScope(s)[v]
                         ELSE GlobalScope[v]
Odd(v) == v % 2 = 1
(* the value of the variable `ag` a component of stage s with private value pv sees (same layering) *)
AgLookup(s, pv, ov) == IF OnOther /\ ov > 0 THEN Odd(ov)
                   ELSE IF pv > 0 THEN Odd(pv)
                   ELSE IF PlatStageVal(s) > 0 THEN Odd(PlatStageVal(s))
                   ELSE IF PlatGlobalVal > 0 THEN Odd(PlatGlobalVal)
                   ELSE IF StageVal(s) > 0 THEN Odd(StageVal(s)) ELSE FALSE

(* replica count a component asks for itself; 0 = none *)
OwnCount(c) == CASE c.rep = "none" -> 0
                 [] c.rep = "n1" -> 1
                 [] c.rep = "n2" -> 2
                 [] c.rep = "n3" -> 3
                 [] c.rep = "n11" -> 11      \* two-digit suffixes: copies 10 and 11 sort before 2 as strings
                 [] OTHER -> Lookup(VarOf(c.rep), c.stage, c.rep, c.priv, c.opriv)

---------------------------------------------------------------------------
(* Building the workflow *)
Init == /\ comps = <<>>
        /\ svals \in {<<v0, v1, pl, pg, p0, p1, ms>> : v0 \in StageVals0, v1 \in StageVals1, pl \in Platforms,
                                                       pg \in PlatGlobalVals, p0 \in PlatStageVals0, p1 \in PlatStageVals1,
                                                       ms \in MsgStageVals}
        /\ phase = "build"
        /\ order = "fwd"
        /\ out = [status |-> "none", nodes |-> <<>>]

Rank(n) == CASE n = "p" -> 1 [] n = "q" -> 2 [] n = "r" -> 3 [] n = "s" -> 4 [] OTHER -> 0

(* an aggregating component never asks for replicas itself (outside the family: the property does not say what it means) *)
(* `agg` is the EFFECTIVE flag: when it is given through the variable (av) it is what the scoping rules resolve `ag` to *)
AddComponent(n, s, r, g, pv, av, ov) ==
    /\ phase = "build" /\ Len(comps) < MaxComps
    /\ ~ \E i \in 1..Len(comps) : comps[i].name = n /\ comps[i].stage = s     \* identifiers (stage, name) are unique
    /\ g => r = "none"
    /\ av => g = AgLookup(s, pv, ov)
    /\ FixedNames => Rank(n) = Len(comps) + 1
    /\ comps' = Append(comps, [name |-> n, stage |-> s, rep |-> r, agg |-> g, refs |-> <<>>, priv |-> pv, aggv |-> av, opriv |-> ov])
    /\ UNCHANGED <<svals, phase, order, out>>

(* the newest component gets one more reference, to a component built earlier that lives in the same or an earlier stage *)
AddRef(p, sp, pa, m, st) ==
    /\ phase = "build" /\ Len(comps) >= 2 /\ p < Len(comps)
    /\ LET c == Len(comps) IN
       /\ Len(comps[c].refs) < MaxRefs
       \* several references to one producer are allowed as long as no two are written identically:
       \* `a/energies.csv:ref` + `a/traj.xyz:copy`, `a:ref` + `a/out.txt:ref`, `a:ref` + `stage0.a:ref`
       /\ Cardinality({k \in 1..Len(comps[c].refs) : comps[c].refs[k].p = p}) < MaxSame
       /\ ~ \E k \in 1..Len(comps[c].refs) : /\ comps[c].refs[k].p = p /\ comps[c].refs[k].sp = sp
                                              /\ comps[c].refs[k].path = pa /\ comps[c].refs[k].m = m
       /\ comps[p].stage <= comps[c].stage
       /\ sp = "rel" => comps[p].stage = comps[c].stage
       /\ comps' = [comps EXCEPT ![c].refs = Append(@, [p |-> p, sp |-> sp, path |-> pa, m |-> m, st |-> st])]
    /\ UNCHANGED <<svals, phase, order, out>>

(* stage indices are contiguous from 0 *)
WellFormed(ws) == /\ Len(ws) >= 1
                  /\ \A c \in 1..Len(ws) : \A s \in Stages : s < ws[c].stage => \E d \in 1..Len(ws) : ws[d].stage = s

---------------------------------------------------------------------------
(* DECLARATIVE definition of the replicated region *)
Producers(ws, c) == {ws[c].refs[k].p : k \in 1..Len(ws[c].refs)}
(* replica counts flow along an edge unless the producer aggregates *)
Feeders(ws, c) == {p \in Producers(ws, c) : ~ ws[p].agg}

RECURSIVE Reach(_, _, _)
(* s reaches c along edges whose tails do not aggregate (c itself may aggregate: it is where the region ends) *)
Reach(ws, s, c) == s = c \/ \E p \in Feeders(ws, c) : Reach(ws, s, p)

Sources(ws, c) == {s \in 1..Len(ws) : OwnCount(ws[s]) # 0 /\ Reach(ws, s, c)}
Counts(ws, c) == {OwnCount(ws[s]) : s \in Sources(ws, c)}
Inconsistent(ws) == \E c \in 1..Len(ws) : Cardinality(Counts(ws, c)) > 1
InRegion(ws, c) == Counts(ws, c) # {}
Count(ws, c) == IF Counts(ws, c) = {} THEN 0 ELSE CHOOSE n \in Counts(ws, c) : TRUE   \* meaningful when consistent
Replicated(ws, c) == InRegion(ws, c) /\ ~ ws[c].agg

(* OPERATIONAL definition: one pass in topological order (the build order is one), propagate_replicate *)
RECURSIVE PropUpTo(_, _)
PropUpTo(ws, k) ==
    IF k = 0 THEN <<>>
    ELSE LET prev == PropUpTo(ws, k - 1)
             bad == \E i \in 1..(k - 1) : prev[i] = -1
             fromPreds == {prev[p] : p \in {q \in Producers(ws, k) : ~ ws[q].agg /\ prev[q] > 0}}
             S == fromPreds \cup (IF OwnCount(ws[k]) # 0 THEN {OwnCount(ws[k])} ELSE {})
             v == IF bad \/ Cardinality(S) > 1 THEN -1 ELSE IF S = {} THEN 0 ELSE CHOOSE x \in S : TRUE
         IN Append(prev, v)
Propagate(ws) == PropUpTo(ws, Len(ws))
PropError(pr) == \E i \in 1..Len(pr) : pr[i] = -1

---------------------------------------------------------------------------
(* The expansion *)
NodeName(ws, c, i) == IF Replicated(ws, c) THEN ws[c].name \o ToString(i) ELSE ws[c].name

(* what reference r names in copy i of its owner (i is ignored when the producer is not replicated) *)
Target(ws, r, i) == [stage |-> ws[r.p].stage, name |-> NodeName(ws, r.p, i), path |-> r.path, m |-> r.m]

Tails(st) == CASE st = "tail" -> <<"/sub/f.txt">>
               [] st = "tail2" -> <<"/x.txt", "/y.txt">>
               [] OTHER -> <<"">>
Lit(text) == [kind |-> "lit", stage |-> 0, name |-> text, path |-> "", m |-> "", tail |-> ""]
Mention(ws, r, i, tail) == [kind |-> "ref", stage |-> ws[r.p].stage, name |-> NodeName(ws, r.p, i),
                            path |-> r.path, m |-> r.m, tail |-> tail]

(* copies a consumer sees of the producer of r: all of them for an aggregating consumer, copy i otherwise *)
Seen(ws, c, r, i) == IF ws[c].agg /\ Replicated(ws, r.p) THEN [j \in 1..Count(ws, r.p) |-> j - 1] ELSE <<i>>

RECURSIVE RefsUpTo(_, _, _, _)
RefsUpTo(ws, c, i, k) ==
    IF k = 0 THEN <<>>
    ELSE LET r == ws[c].refs[k]
             seen == Seen(ws, c, r, i)
         IN RefsUpTo(ws, c, i, k - 1) \o [j \in 1..Len(seen) |-> Target(ws, r, seen[j])]

RECURSIVE MentionsOf(_, _, _, _, _)
(* the mentions of reference r, tail by tail; an aggregating consumer lists all copies in index order in place *)
MentionsOf(ws, c, r, i, t) ==
    IF t = 0 THEN <<>>
    ELSE LET seen == Seen(ws, c, r, i)
         IN MentionsOf(ws, c, r, i, t - 1) \o [j \in 1..Len(seen) |-> Mention(ws, r, seen[j], Tails(r.st)[t])]

RECURSIVE ArgsUpTo(_, _, _, _)
ArgsUpTo(ws, c, i, k) ==
    IF k = 0 THEN <<Lit("-x")>>
    ELSE ArgsUpTo(ws, c, i, k - 1) \o MentionsOf(ws, c, ws[c].refs[k], i, Len(Tails(ws[c].refs[k].st)))

Node(ws, c, i) == [stage |-> ws[c].stage, name |-> NodeName(ws, c, i), base |-> c,
                   idx |-> IF Replicated(ws, c) THEN i ELSE -1,
                   cnt |-> IF Replicated(ws, c) THEN Count(ws, c) ELSE 0,
                   agg |-> ws[c].agg,
                   refs |-> RefsUpTo(ws, c, i, Len(ws[c].refs)),
                   args |-> ArgsUpTo(ws, c, i, Len(ws[c].refs))]

RECURSIVE NodesUpTo(_, _)
NodesUpTo(ws, c) ==
    IF c = 0 THEN <<>>
    ELSE NodesUpTo(ws, c - 1) \o (IF Replicated(ws, c) THEN [j \in 1..Count(ws, c) |-> Node(ws, c, j - 1)]
                                   ELSE <<Node(ws, c, 0)>>)

Collides(ns) == \E i, j \in 1..Len(ns) : i < j /\ ns[i].stage = ns[j].stage /\ ns[i].name = ns[j].name

(* status "inconsistent": two different replica counts meet -> the loader must refuse the workflow.            *)
(* status "collision": a copy gets the identifier of another node (no expansion with suffixes 0..N-1 exists)   *)
(*                     -> the loader must refuse the workflow rather than drop/merge a node.                   *)
Expansion(ws) ==
    IF Inconsistent(ws) THEN [status |-> "inconsistent", nodes |-> <<>>]
    ELSE LET ns == NodesUpTo(ws, Len(ws))
         IN IF Collides(ns) THEN [status |-> "collision", nodes |-> <<>>] ELSE [status |-> "ok", nodes |-> ns]

Expand(o) == /\ phase = "build" /\ WellFormed(comps)
             /\ phase' = "expanded" /\ order' = o
             /\ out' = Expansion(comps)
             /\ UNCHANGED <<comps, svals>>

Next == \/ \E n \in Names, s \in Stages, r \in RepChoices, g \in AggChoices, pv \in PrivChoices, av \in AggVarChoices,
              ov \in OvrPrivChoices : AddComponent(n, s, r, g, pv, av, ov)
        \/ \E p \in 1..MaxComps, sp \in Spellings, pa \in Paths, m \in Methods, st \in ArgStyles : AddRef(p, sp, pa, m, st)
        \/ \E o \in DocOrders : Expand(o)

Spec == Init /\ [][Next]_rvars

---------------------------------------------------------------------------
(* Properties of C03, stated over the expanded workflow *)
Done == phase = "expanded"
Ok == Done /\ out.status = "ok"
NodesOf(c) == {j \in 1..Len(out.nodes) : out.nodes[j].base = c}
Id(x) == <<x.stage, x.name>>
NodeIds == {Id(out.nodes[j]) : j \in 1..Len(out.nodes)}

TypeOK == /\ phase \in {"build", "expanded"} /\ Len(comps) <= MaxComps /\ order \in {"fwd", "rev"}
          /\ \A c \in 1..Len(comps) : /\ Len(comps[c].refs) <= MaxRefs
                                      /\ \A k \in 1..Len(comps[c].refs) : comps[c].refs[k].p < c

(* the two definitions of the region agree on every workflow (also on the partial ones) *)
PropagateEqualsRegion ==
    LET pr == Propagate(comps)
    IN /\ PropError(pr) <=> Inconsistent(comps)
       /\ ~ Inconsistent(comps) => \A c \in 1..Len(comps) : pr[c] = Count(comps, c)

(* exactly N copies, suffix 0..N-1, each knowing its own index *)
ExactlyNCopies ==
    Ok => \A c \in 1..Len(comps) :
            IF Replicated(comps, c)
            THEN /\ Cardinality(NodesOf(c)) = Count(comps, c)
                 /\ {out.nodes[j].idx : j \in NodesOf(c)} = 0..(Count(comps, c) - 1)
                 /\ \A j \in NodesOf(c) : /\ out.nodes[j].name = comps[c].name \o ToString(out.nodes[j].idx)
                                          /\ out.nodes[j].cnt = Count(comps, c)
            ELSE /\ Cardinality(NodesOf(c)) = 1
                 /\ \A j \in NodesOf(c) : out.nodes[j].name = comps[c].name /\ out.nodes[j].idx = -1

(* copy i consumes from copy i of each replicated producer and from the single instance of the others *)
CopyWiring ==
    Ok => \A j \in 1..Len(out.nodes) :
            LET nd == out.nodes[j]  c == nd.base
            IN (~ nd.agg) =>
                 /\ Len(nd.refs) = Len(comps[c].refs)
                 /\ \A k \in 1..Len(nd.refs) :
                      LET p == comps[c].refs[k].p
                      IN /\ nd.refs[k].stage = comps[p].stage
                         /\ nd.refs[k].path = comps[c].refs[k].path /\ nd.refs[k].m = comps[c].refs[k].m
                         /\ nd.refs[k].name = IF Replicated(comps, p) THEN comps[p].name \o ToString(nd.idx)
                                              ELSE comps[p].name
                         \* a copy only ever consumes from producers with the same number of copies
                         /\ Replicated(comps, p) => nd.idx >= 0 /\ Count(comps, p) = nd.cnt

(* an aggregating component stays single and consumes all N copies of a replicated producer in index order *)
AggregatorSingle ==
    Ok => \A c \in 1..Len(comps) : comps[c].agg =>
            /\ Cardinality(NodesOf(c)) = 1
            /\ \A j \in NodesOf(c) :
                 LET nd == out.nodes[j]
                     Expect(k) == LET p == comps[c].refs[k].p
                                  IN IF Replicated(comps, p)
                                     THEN [i \in 1..Count(comps, p) |-> comps[p].name \o ToString(i - 1)]
                                     ELSE <<comps[p].name>>
                     RECURSIVE Flat(_)
                     Flat(k) == IF k = 0 THEN <<>> ELSE Flat(k - 1) \o Expect(k)
                 IN [k \in 1..Len(nd.refs) |-> nd.refs[k].name] = Flat(Len(comps[c].refs))

(* everything outside the replicated region is unchanged *)
OutsideUnchanged ==
    Ok => \A c \in 1..Len(comps) : (~ InRegion(comps, c)) =>
            \A j \in NodesOf(c) :
               LET nd == out.nodes[j]
               IN /\ nd.name = comps[c].name /\ nd.stage = comps[c].stage /\ nd.idx = -1 /\ nd.cnt = 0
                  /\ Len(nd.refs) = Len(comps[c].refs)
                  /\ \A k \in 1..Len(nd.refs) : /\ nd.refs[k].name = comps[comps[c].refs[k].p].name
                                                /\ ~ InRegion(comps, comps[c].refs[k].p) \/ comps[comps[c].refs[k].p].agg

(* every reference in the result names a node that exists; identifiers are unique; the result is acyclic *)
NoDangling == Ok => \A j \in 1..Len(out.nodes) : \A k \in 1..Len(out.nodes[j].refs) : Id(out.nodes[j].refs[k]) \in NodeIds
UniqueIds == Ok => Cardinality(NodeIds) = Len(out.nodes)
(* an edge always goes from a node of an earlier-built component to a node of a later-built one *)
Acyclic == Ok => \A j \in 1..Len(out.nodes) : \A k \in 1..Len(out.nodes[j].refs) :
                   \A i \in 1..Len(out.nodes) : Id(out.nodes[i]) = Id(out.nodes[j].refs[k]) => out.nodes[i].base < out.nodes[j].base
(* inconsistent replica counts are an error, and the only other refusal is an identifier collision *)
InconsistentIsError == Done => /\ (out.status = "inconsistent") <=> Inconsistent(comps)
                               /\ (out.status = "collision") => ~ Inconsistent(comps)
                               /\ (out.status = "ok") => ~ Inconsistent(comps)
(* the arguments mention exactly what the references list names (as sets of (stage,name,path,method)) *)
ArgsFollowRefs == Ok => \A j \in 1..Len(out.nodes) :
                     LET nd == out.nodes[j]
                     IN {<<nd.args[t].stage, nd.args[t].name, nd.args[t].path, nd.args[t].m>> : t \in {u \in 1..Len(nd.args) : nd.args[u].kind = "ref"}}
                        = {<<nd.refs[k].stage, nd.refs[k].name, nd.refs[k].path, nd.refs[k].m>> : k \in 1..Len(nd.refs)}

(* reachability witnesses for the vacuity guard (run as expected-to-fail invariants) *)
NeverReplicated == ~ (Ok /\ \E c \in 1..Len(comps) : Replicated(comps, c))
NeverAggregated == ~ (Ok /\ \E c \in 1..Len(comps) : comps[c].agg /\ InRegion(comps, c))
NeverInconsistent == ~ (Done /\ out.status = "inconsistent")
NeverCollision == ~ (Done /\ out.status = "collision")

(* emission of the cases for the conformance driver *)
CRef(r) == <<r.stage, r.name, r.path, r.m>>
CArg(a) == <<a.kind, a.stage, a.name, a.path, a.m, a.tail>>
CNode(nd) == [s |-> nd.stage, n |-> nd.name, b |-> nd.base, i |-> nd.idx, c |-> nd.cnt, g |-> nd.agg,
              r |-> [k \in 1..Len(nd.refs) |-> CRef(nd.refs[k])], a |-> [k \in 1..Len(nd.args) |-> CArg(nd.args[k])]]
CComp(c) == [n |-> c.name, s |-> c.stage, rep |-> c.rep, g |-> c.agg, pv |-> c.priv, av |-> c.aggv, ov |-> c.opriv,
             r |-> [k \in 1..Len(c.refs) |-> <<c.refs[k].p, c.refs[k].sp, c.refs[k].path, c.refs[k].m, c.refs[k].st>>]]
EmitCase == (Emit /\ Done) =>
              PrintT(ToJson([comps |-> [c \in 1..Len(comps) |-> CComp(comps[c])], order |-> order, sv |-> svals, status |-> out.status,
                             nodes |-> [j \in 1..Len(out.nodes) |-> CNode(out.nodes[j])]]))
=============================================================================
