---- MODULE SchedTraceData ----
\* placeholder: the conformance driver generates the recorded runs per validation batch
Traces == <<>>
====
