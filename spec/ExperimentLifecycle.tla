------------------------ MODULE ExperimentLifecycle ------------------------
(***************************************************************************)
(* G03 -- the experiment-level orchestration of st4sd-runtime-core and the *)
(* status document a user polls (output/status.txt).                       *)
(*                                                                         *)
(* Code: scripts/elaunch.py (the deployment part of the __main__ block:    *)
(* Setup(), the update after deployment, report_error(), Run() -- the      *)
(* stage loop around Controller.initialise()/run() --, the except clauses  *)
(* that choose the exit status, the finally clause that stops the monitor, *)
(* cleans the controller up, waits for the components, joins the monitor   *)
(* and writes the final status), experiment.runtime.output.StatusMonitor   *)
(* (CheckStatus, compute_stage_status), experiment.model.data.Status       *)
(* (setters, update), Controller.stage/stageState/get_stage_status/        *)
(* get_stages_in_transit/get_stages_finished/cleanUp/workflowIsComplete,   *)
(* workflow.StageState.state.                                              *)
(*                                                                         *)
(* One action per call that changes the in-memory document (`mem`) or the  *)
(* file (`disk`), one per program point of the main thread that another    *)
(* thread or a signal can observe, one per component transition the        *)
(* document depends on.  The scheduler itself is Scheduler.tla (C01, C02,  *)
(* G02); here a component is running | finished | failed | shutdown plus   *)
(* "the controller has recorded its end" (Controller.comp_done).           *)
(*                                                                         *)
(* A document is a tuple                                                   *)
(*   <<experiment-state, stage-state, exit-status, current-stage,          *)
(*     total-progress, stage-progress, error-description?, completed-on?,  *)
(*     created-on?>>                                                       *)
(* current-stage: 0 = None, k = the k-th stage; stage-progress in halves   *)
(* (stages have one or two components); total-progress in the units of the *)
(* scenario's stage weights w (all even), Full = their sum means 1.0.      *)
(*                                                                         *)
(* fix.* select the repaired design (TRUE) or what the code does (FALSE);   *)
(* each FALSE is a finding with a reproduction script and a patch under    *)
(* out/proposed_fixes/G03_*:                                               *)
(*   cur     compute_stage_status() of a stage in transit no longer        *)
(*           overwrites current-stage / stage-progress                     *)
(*   stale   a restart forgets exit-status / completed-on / experiment-     *)
(*           state of the earlier run (Status.resetForRestart)             *)
(*   restart Controller.workflowIsComplete skips the engine-less           *)
(*           components of the stages a restart skips                      *)
(*   early   cleanUp() before the first initialise() still stops the       *)
(*           components; join() of a monitor that never ran returns        *)
(* The promises (section "what a poller relies on") are checked on the     *)
(* repaired design.  Named deviations = properties one would like and the  *)
(* code (repaired or not) does not have, each witnessed by a TLC           *)
(* counterexample in harness/checks/g03.py:                                *)
(*   EarlyExitStatus (ExitOnlyWhenTerminal): the handlers set exit-status  *)
(*     in memory before the clean-up, the monitor's last action publishes  *)
(*     it next to experiment-state=running;                                *)
(*   SignalDuringCleanup / unprotected window (AlwaysFinalised): a signal  *)
(*     inside the finally clause, or between the update after deployment   *)
(*     and the main try, kills the launcher without a final status;        *)
(*   SignalInSetupReportsFailed (SignalMeansStopped);                      *)
(*   ProgressCanDecrease (ProgressMonotone), KilledStagesCountAsComplete   *)
(*     (NeverRunNotCounted): how get_stages_finished() feeds total-progress*)
(*   and, for the code as it is: CurrentStageRunsAhead / Decreases /       *)
(*     FailedStageMisreported (cur), StaleVerdictOnRestart /               *)
(*     StaleCompletionTime (stale), RestartCleanupCrash (restart),         *)
(*     EarlySignalHang (early).                                            *)
(***************************************************************************)
EXTENDS Integers, Sequences, FiniteSets, TLC, Json, LifecycleData

CONSTANTS MaxSig,       \* signals the environment may deliver (0..2)
          FixCur, FixStale, FixRestart, FixEarly,     \* subsets of BOOLEAN
          Emit

VARIABLES sc,       \* index into Scenarios
          fix,      \* [cur, stale, restart, early : BOOLEAN]
          pc,       \* program point of the main thread
          mem,      \* the Status object (in memory)
          disk,     \* status.txt
          ost,      \* Experiment._currentStage (1-based; ns + 1 after the last stage)
          cst,      \* Controller.currentStage (0 = None)
          hasCtl,   \* the Controller object exists
          cs,       \* cs[k][i]: state of component i of stage k
          dn,       \* dn[k][i]: its reference is in Controller.comp_done
          forced,   \* stages whose StageState.controller_state was set to FAILED
          mon,      \* status monitor thread: off | on | cancelled | done
          xit,      \* what the main thread is about to report: none | failed | stopped
          verdict,  \* how the last Controller.run() ended
          nsig, sigAt,      \* signals so far; <<pc, ost>> of the first
          reset,    \* this run has re-initialised a document it loaded (restart)
          own,      \* status.txt was written by this run (after `reset`, for a restart)
          ticked,   \* the status monitor of this run has written status.txt
          begun,    \* Controller.run() was called at least once: components get launched
          code      \* exit code of the process (-1: still running; 130: killed by the signal; 99: never exits)

vars == <<sc, fix, pc, mem, disk, ost, cst, hasCtl, cs, dn, forced, mon, xit, verdict, nsig, sigAt, reset, own, begun, ticked, code>>

S == Scenarios[sc]
NS == S.ns
NC(k) == Len(S.out[k])
Stages == 1..NS
Comps == UNION {{<<k, i>> : i \in 1..NC(k)} : k \in Stages}
InRange(k, i) == k \in Stages /\ i \in 1..NC(k)
Full == LET RECURSIVE Sum(_) Sum(k) == IF k = 0 THEN 0 ELSE S.w[k] + Sum(k - 1) IN Sum(NS)      \* total-progress 1.0

\* ---------------------------------------------------------------------------------------------- documents
NoDoc == <<"none", "none", "N/A", 0, 0, 0, FALSE, FALSE, FALSE>>
DefaultDoc(cre) == <<"Initialising", "Initialising", "N/A", 0, 0, 0, FALSE, FALSE, cre>>
Es(d) == d[1]
Ss(d) == d[2]
Xs(d) == d[3]
Cur(d) == d[4]
Tp(d) == d[5]
Sp(d) == d[6]
Err(d) == d[7]
Cmp(d) == d[8]
With(d, i, v) == [d EXCEPT ![i] = v]
Terminal == {"finished", "failed"}

\* ---------------------------------------------------------------------------------------------- what the monitor reads
StatesOf(k) == {cs[k][i] : i \in 1..NC(k)}
\* workflow.StageState.state
StageStateOf(k) ==
  IF k \in forced THEN "failed"
  ELSE IF "failed" \in StatesOf(k) THEN "failed"
  ELSE IF "running" \in StatesOf(k) THEN "running"
  ELSE IF "shutdown" \in StatesOf(k) THEN "component_shutdown"
  ELSE "finished"
NFin(k) == Cardinality({i \in 1..NC(k) : cs[k][i] = "finished"})
\* Controller.get_stage_status: no components are reported for the stages before the one a restart begins with
Prog(k) == IF S.restart /\ k < S.start THEN 0 ELSE (2 * NFin(k)) \div NC(k)           \* stage-progress in halves
Part(k) == (S.w[k] * Prog(k)) \div 2                                                  \* its share of total-progress
RECURSIVE SumW(_)
SumW(s) == IF s = {} THEN 0 ELSE LET k == CHOOSE x \in s : TRUE IN S.w[k] + SumW(s \ {k})
AllDone(k) == \A i \in 1..NC(k) : dn[k][i]
InTransit == {k \in Stages : k # cst /\ ~AllDone(k)}     \* get_stages_in_transit minus the current stage
Finished == {k \in Stages : k # cst /\ AllDone(k)}       \* get_stages_finished minus the current stage
Max(s) == CHOOSE x \in s : \A y \in s : y <= x
RECURSIVE SumProg(_)
SumProg(s) == IF s = {} THEN 0 ELSE LET k == CHOOSE x \in s : TRUE IN Part(k) + SumProg(s \ {k})

\* StatusMonitor.CheckStatus with the controller at stage cst: compute_stage_status(stage) sets current-stage and
\* stage-progress -- for the controller's stage and then for every stage in transit, in ascending order
TickDoc ==
  LET shown == IF fix.cur \/ InTransit = {} THEN cst ELSE Max(InTransit)
      total == Part(cst) + SumProg(InTransit) + SumW(Finished)
  IN  [mem EXCEPT ![1] = "running", ![2] = StageStateOf(cst), ![4] = shown, ![5] = total, ![6] = Prog(shown)]

\* ---------------------------------------------------------------------------------------------- initial states
FixSet == {[cur |-> a, stale |-> b, restart |-> c, early |-> d] : a \in FixCur, b \in FixStale, c \in FixRestart, d \in FixEarly}

Init ==
  /\ sc \in 1..Len(Scenarios)
  /\ fix \in FixSet
  /\ pc = "start"
  /\ mem = NoDoc
  /\ disk = IF S.restart THEN S.prior ELSE NoDoc
  /\ ost = 1 /\ cst = 0 /\ hasCtl = FALSE
  /\ cs = [k \in Stages |-> [i \in 1..NC(k) |-> "running"]]
  /\ dn = [k \in Stages |-> [i \in 1..NC(k) |-> FALSE]]
  /\ forced = {}
  /\ mon = "off" /\ xit = "none" /\ verdict = "none"
  /\ nsig = 0 /\ sigAt = <<"none", 0>>
  /\ reset = FALSE /\ own = FALSE /\ begun = FALSE /\ ticked = FALSE
  /\ code = -1

\* ---------------------------------------------------------------------------------------------- the Status API
UNCH_CTL == UNCHANGED <<sc, fix, ost, cst, hasCtl, cs, dn, forced, mon, verdict, nsig, sigAt, begun, ticked, code>>

\* data.Status(...): Experiment.__init__ (new instance), Status.statusFromFile (restart), report_error (a blank document)
NewStatus(kind) ==
  /\ UNCH_CTL /\ UNCHANGED <<disk, xit, reset, own>>
  /\ \/ kind = "new" /\ pc = "start" /\ ~S.restart /\ S.setup # "badpkg" /\ mem' = DefaultDoc(FALSE) /\ pc' = "created0"
     \/ kind = "load" /\ pc = "start" /\ S.restart /\ mem' = disk /\ pc' = "setup_done"
     \/ kind = "report" /\ pc = "report" /\ mem' = DefaultDoc(FALSE) /\ pc' = "report1"

\* Status.update(): the document is written to a temporary file which is renamed to status.txt
Write(who) ==
  /\ UNCH_CTL /\ UNCHANGED <<mem, xit, reset>>
  /\ disk' = mem /\ own' = (~S.restart \/ reset \/ who = "report")
  /\ \/ who = "setup" /\ pc = "created" /\ pc' = "setup_done"
     \/ who = "deploy" /\ pc = "setup_done" /\ S.setup = "ok" /\ pc' = "deployed"
     \/ who = "deploy" /\ pc = "setup_err" /\ pc' = "report"
     \/ who = "report" /\ pc = "report4" /\ pc' = "exited"
     \/ who = "final" /\ pc = "c_final2" /\ pc' = "exited"

SetField(field, val) ==
  /\ UNCH_CTL /\ UNCHANGED <<disk, xit, own, reset>>
  /\ \/ field = "created-on" /\ pc = "created0" /\ mem' = With(mem, 9, TRUE) /\ pc' = "created"
     \/ field = "error-description" /\ pc = "setup_done" /\ S.setup = "badexe" /\ mem' = With(mem, 7, TRUE) /\ pc' = "setup_err"
     \/ field = "experiment-state" /\ val = "failed" /\ pc = "report1" /\ mem' = With(mem, 1, "failed") /\ pc' = "report2"
     \/ field = "exit-status" /\ val = "Failed" /\ pc = "report2" /\ mem' = With(mem, 3, "Failed") /\ pc' = "report3"
     \/ field = "error-description" /\ pc = "report3" /\ mem' = With(mem, 7, TRUE) /\ pc' = "report4"
     \* after Run(): Success;  except StageFailedError / Exception: Failed;  except KeyboardInterrupt: Stopped
     \/ field = "exit-status" /\ val = "Success" /\ pc = "post_run" /\ mem' = With(mem, 3, "Success") /\ pc' = "cleanup"
     \/ field = "exit-status" /\ val = "Failed" /\ pc = "handler" /\ xit = "failed" /\ mem' = With(mem, 3, "Failed") /\ pc' = "handler2"
     \/ field = "exit-status" /\ val = "Stopped" /\ pc = "handler" /\ xit = "stopped" /\ mem' = With(mem, 3, "Stopped") /\ pc' = "handler2"
     \/ field = "error-description" /\ pc = "handler2" /\ mem' = With(mem, 7, TRUE) /\ pc' = "cleanup"
     \* the end of the finally clause
     \/ field = "completed-on" /\ (pc = "c_ready" \/ (pc = "c_killed" /\ ~hasCtl)) /\ mem' = With(mem, 8, TRUE) /\ pc' = "c_final1"
     \/ field = "experiment-state" /\ val = "finished" /\ pc = "c_final1" /\ mem' = With(mem, 1, "finished") /\ pc' = "c_final2"

\* ---------------------------------------------------------------------------------------------- the main thread
UNCH_DOC == UNCHANGED <<sc, fix, mem, disk, nsig, sigAt, reset, own, begun, ticked, code>>

\* restart: `compExperiment.statusFile.removeErrorDescription()`; the repaired launcher also drops the verdict of the earlier run
RestartReset ==
  /\ pc = "pre_ctl" /\ S.restart /\ ~reset /\ reset' = TRUE
  /\ mem' = IF fix.stale THEN [mem EXCEPT ![7] = FALSE, ![3] = "N/A", ![8] = FALSE, ![1] = "Initialising"] ELSE With(mem, 7, FALSE)
  /\ UNCH_CTL /\ UNCHANGED <<pc, disk, xit, own>>

\* Setup() fails before an Experiment object exists (nothing can be loaded)
SetupFails ==
  /\ pc = "start" /\ S.setup = "badpkg" /\ pc' = "report"
  /\ UNCH_DOC /\ UNCHANGED <<ost, cst, hasCtl, cs, dn, forced, mon, xit, verdict>>

\* the main `try:` is entered (generate_components)
EnterTry ==
  /\ pc = "deployed" /\ pc' = "pre_ctl"
  /\ UNCH_DOC /\ UNCHANGED <<ost, cst, hasCtl, cs, dn, forced, mon, xit, verdict>>

CtlCreate ==
  /\ pc = "pre_ctl" /\ (S.restart => reset) /\ pc' = "ctl" /\ hasCtl' = TRUE
  /\ UNCH_DOC /\ UNCHANGED <<ost, cst, cs, dn, forced, mon, xit, verdict>>

RunCall ==
  /\ pc = "ctl" /\ pc' = "in_run"
  /\ UNCH_DOC /\ UNCHANGED <<ost, cst, hasCtl, cs, dn, forced, mon, xit, verdict>>

\* Run(): statusMonitor.run(controller); restart -> compExperiment.setCurrentStage(startStage)
MonStart ==
  /\ pc = "in_run" /\ pc' = (IF S.restart THEN "set_stage" ELSE "stage_top") /\ mon' = "on"
  /\ UNCH_DOC /\ UNCHANGED <<ost, cst, hasCtl, cs, dn, forced, xit, verdict>>
SetStage ==
  /\ pc = "set_stage" /\ pc' = "stage_top" /\ ost' = S.start
  /\ UNCH_DOC /\ UNCHANGED <<cst, hasCtl, cs, dn, forced, mon, xit, verdict>>

\* Controller.initialise(): the first call marks the components of the stages before the starting one FINISHED and done
SkipComp(k, i) ==
  /\ InRange(k, i)
  /\ pc = "stage_top" /\ cst = 0 /\ S.restart /\ k < S.start /\ cs[k][i] = "running"
  /\ cs' = [cs EXCEPT ![k][i] = "finished"]
  /\ UNCH_DOC /\ UNCHANGED <<pc, ost, cst, hasCtl, dn, forced, mon, xit, verdict>>
SkipDone(k, i) ==
  /\ InRange(k, i)
  /\ pc = "stage_top" /\ cst = 0 /\ S.restart /\ k < S.start /\ cs[k][i] = "finished" /\ ~dn[k][i]
  /\ dn' = [dn EXCEPT ![k][i] = TRUE]
  /\ UNCH_DOC /\ UNCHANGED <<pc, ost, cst, hasCtl, cs, forced, mon, xit, verdict>>
StageInit(k) ==
  /\ k \in Stages
  /\ pc = "stage_top" /\ k = ost /\ ost <= NS
  /\ (cst = 0 /\ S.restart) => \A j \in 1..(S.start - 1) : AllDone(j)
  /\ cst' = k /\ pc' = "inited"
  /\ UNCH_DOC /\ UNCHANGED <<ost, hasCtl, cs, dn, forced, mon, xit, verdict>>
RunBegin(k) ==
  /\ k \in Stages
  /\ pc = "inited" /\ k = cst /\ pc' = "running" /\ begun' = TRUE
  /\ UNCHANGED <<sc, fix, mem, disk, nsig, sigAt, reset, own, ticked, code>> /\ UNCHANGED <<ost, cst, hasCtl, cs, dn, forced, mon, xit, verdict>>

Leafless(k) == k = NS /\ \A i \in 1..NC(k) : cs[k][i] # "finished"
\* Controller.run() returns / raises once nothing of its stage is active
RunEnd(k, v) ==
  /\ k \in Stages /\ k = cst
  /\ \/ /\ pc = "running" /\ AllDone(k)
        /\ v = IF "failed" \in StatesOf(k) THEN "failed" ELSE IF Leafless(k) THEN "noleaf" ELSE "ok"
        /\ forced' = IF v = "noleaf" THEN forced \cup {k} ELSE forced
        /\ pc' = "stage_end"
     \/ pc = "interrupted" /\ v = "interrupted" /\ pc' = "handler" /\ UNCHANGED forced
  /\ verdict' = v
  /\ UNCH_DOC /\ UNCHANGED <<ost, cst, hasCtl, cs, dn, mon, xit>>
\* the stage loop of Run(): next stage, or StageFailedError
Increment ==
  /\ pc = "stage_end" /\ (verdict = "ok" \/ S.coe[cst])
  /\ ost' = ost + 1 /\ pc' = "stage_top"
  /\ UNCH_DOC /\ UNCHANGED <<cst, hasCtl, cs, dn, forced, mon, xit, verdict>>
StageFailed ==
  /\ pc = "stage_end" /\ verdict # "ok" /\ ~S.coe[cst]
  /\ xit' = "failed" /\ pc' = "handler"
  /\ UNCH_DOC /\ UNCHANGED <<ost, cst, hasCtl, cs, dn, forced, mon, verdict>>
RunReturned ==
  /\ pc = "stage_top" /\ ost = NS + 1 /\ pc' = "post_run"
  /\ UNCH_DOC /\ UNCHANGED <<ost, cst, hasCtl, cs, dn, forced, mon, xit, verdict>>

\* finally: statusMonitor.kill()
MonKill ==
  /\ pc = "cleanup" /\ pc' = "c_killed"
  /\ mon' = IF mon = "on" THEN "cancelled" ELSE mon
  /\ UNCH_DOC /\ UNCHANGED <<ost, cst, hasCtl, cs, dn, forced, xit, verdict>>
\* controller.cleanUp(): before the first initialise() the controller has no status database, _fake_finish_with_state()
\* raises for every component and kill_all_components() records it as done without stopping it
EarlyMark(k, i) ==
  /\ InRange(k, i)
  /\ pc = "c_killed" /\ hasCtl /\ cst = 0 /\ ~fix.early /\ ~dn[k][i]
  /\ dn' = [dn EXCEPT ![k][i] = TRUE]
  /\ UNCH_DOC /\ UNCHANGED <<pc, ost, cst, hasCtl, cs, forced, mon, xit, verdict>>
CleanUp ==
  /\ pc = "c_killed" /\ hasCtl /\ pc' = "c_cleaned"
  /\ (cst = 0 /\ ~fix.early) => \A k \in Stages : AllDone(k)
  /\ UNCH_DOC /\ UNCHANGED <<ost, cst, hasCtl, cs, dn, forced, mon, xit, verdict>>
\* controller.workflowIsComplete ... controller_join.wait(): every engine's stream of updates has completed
Stopped(k, i) == cs[k][i] # "running" \/ (S.restart /\ k < S.start)
Joined ==
  /\ pc = "c_cleaned" /\ (fix.restart \/ ~S.restart \/ S.start = 1)
  /\ \A c \in Comps : Stopped(c[1], c[2])
  /\ pc' = "c_joined"
  /\ UNCH_DOC /\ UNCHANGED <<ost, cst, hasCtl, cs, dn, forced, mon, xit, verdict>>
\* ... a component of a stage before the starting one has no engine: AttributeError out of the finally clause
CleanupCrash ==
  /\ pc = "c_cleaned" /\ ~fix.restart /\ S.restart /\ S.start > 1
  /\ pc' = "dead" /\ code' = 1
  /\ UNCHANGED <<sc, fix, mem, disk, nsig, sigAt, reset, own, begun, ticked, ost, cst, hasCtl, cs, dn, forced, mon, xit, verdict>>
\* statusMonitor.join(): waits for the last action of the monitor thread -- for ever if the monitor was never started
MonJoin ==
  /\ pc = "c_joined" /\ (mon = "done" \/ (mon = "off" /\ fix.early)) /\ pc' = "c_ready"
  /\ UNCH_DOC /\ UNCHANGED <<ost, cst, hasCtl, cs, dn, forced, mon, xit, verdict>>
\* the clean-up waits for components nobody stops / for a monitor that never ran
Hang ==
  /\ ~fix.early
  /\ \/ pc = "c_cleaned" /\ cst = 0
     \/ pc = "c_joined" /\ mon = "off"
  /\ pc' = "hung" /\ code' = 99
  /\ UNCHANGED <<sc, fix, mem, disk, nsig, sigAt, reset, own, begun, ticked, ost, cst, hasCtl, cs, dn, forced, mon, xit, verdict>>

Exit ==
  /\ pc = "exited" /\ code = -1
  /\ code' = IF Xs(disk) = "Success" THEN 0 ELSE 1
  /\ UNCHANGED <<sc, fix, pc, mem, disk, nsig, sigAt, reset, own, begun, ticked, ost, cst, hasCtl, cs, dn, forced, mon, xit, verdict>>

\* ---------------------------------------------------------------------------------------------- the other threads
\* the status monitor performs its action (the last time after it was cancelled)
Tick ==
  /\ mon \in {"on", "cancelled"} /\ pc \notin {"dead", "exited", "hung"}
  /\ mon' = IF mon = "cancelled" THEN "done" ELSE mon
  /\ IF cst = 0 THEN UNCHANGED <<mem, disk, own>> ELSE mem' = TickDoc /\ disk' = TickDoc /\ own' = (~S.restart \/ reset)
  /\ ticked' = (ticked \/ cst # 0)
  /\ UNCHANGED <<sc, fix, pc, ost, cst, hasCtl, cs, dn, forced, xit, verdict, nsig, sigAt, reset, begun, code>>

\* everything was told to stop: KeyboardInterrupt inside Controller.run() (handleError), or cleanUp() is running / has run
Cleaning ==
  \/ pc = "interrupted"
  \/ verdict = "interrupted" /\ pc \in {"handler", "handler2", "cleanup"}
  \/ hasCtl /\ pc \in {"c_killed", "c_cleaned", "c_joined", "c_ready", "c_final1", "c_final2", "exited"}
\* a component shuts down instead of running to its end when everything was told to stop, or when something it (transitively)
\* waits for failed or shut down (the scheduler's own rules are Scheduler.tla's subject: here any component may)
Trouble == Cleaning \/ \E c \in Comps : cs[c[1]][c[2]] \in {"failed", "shutdown"}
Ready(k, i) ==
  /\ begun
  /\ ~(S.restart /\ k < S.start)
  /\ (S.chain /\ k > 1) => (cs[k - 1][1] = "finished" /\ dn[k - 1][1])
CompEnd(k, i, s) ==
  /\ InRange(k, i)
  /\ cs[k][i] = "running" /\ hasCtl /\ pc \notin {"dead", "hung"} /\ (cst = 0 => fix.early)
  /\ ~(S.restart /\ k < S.start)
  /\ \/ s = "finished" /\ S.out[k][i] = "ok" /\ Ready(k, i)
     \/ s = "failed" /\ S.out[k][i] = "fail" /\ Ready(k, i)
     \/ s = "shutdown" /\ ((S.out[k][i] = "shut" /\ Ready(k, i)) \/ Trouble)
  /\ cs' = [cs EXCEPT ![k][i] = s]
  /\ UNCH_DOC /\ UNCHANGED <<pc, ost, cst, hasCtl, dn, forced, mon, xit, verdict>>
\* Controller.finishedCheck
CompDone(k, i) ==
  /\ InRange(k, i)
  /\ cs[k][i] # "running" /\ ~dn[k][i] /\ hasCtl /\ (cst # 0 \/ fix.early) /\ pc \notin {"dead", "hung"}
  /\ ~(S.restart /\ k < S.start)
  /\ dn' = [dn EXCEPT ![k][i] = TRUE]
  /\ UNCH_DOC /\ UNCHANGED <<pc, ost, cst, hasCtl, cs, forced, mon, xit, verdict>>

\* SIGINT / SIGTERM / SIGUSR2: signal_handler raises KeyboardInterrupt in the main thread
InSetupTry == {"start"}
Unprotected == {"deployed"}
InMainTry == {"pre_ctl", "ctl", "in_run", "set_stage", "stage_top", "inited", "stage_end", "post_run"}
InFinally == {"cleanup", "c_killed", "c_cleaned", "c_joined", "c_ready", "c_final1", "c_final2"}
Signal ==
  /\ nsig < MaxSig /\ nsig' = nsig + 1
  /\ sigAt' = IF nsig = 0 THEN <<pc, ost>> ELSE sigAt
  /\ \/ pc \in InSetupTry /\ pc' = "report" /\ UNCHANGED <<xit, code>>
     \/ pc \in Unprotected /\ pc' = "dead" /\ code' = 130 /\ UNCHANGED xit
     \/ pc \in InMainTry /\ pc' = "handler" /\ xit' = "stopped" /\ UNCHANGED code
     \/ pc = "running" /\ pc' = "interrupted" /\ xit' = "stopped" /\ UNCHANGED code
     \/ pc \in InFinally /\ pc' = "dead" /\ code' = 130 /\ UNCHANGED xit
  /\ UNCHANGED <<sc, fix, mem, disk, reset, own, begun, ticked, ost, cst, hasCtl, cs, dn, forced, mon, verdict>>

MainStep ==
  \/ \E k \in {"new", "load", "report"} : NewStatus(k)
  \/ \E w \in {"setup", "deploy", "report", "final"} : Write(w)
  \/ \E f \in {"created-on", "error-description", "experiment-state", "exit-status", "completed-on"},
        v \in {"failed", "finished", "Failed", "Stopped", "Success", "-"} : SetField(f, v)
  \/ SetupFails \/ EnterTry \/ RestartReset \/ CtlCreate \/ RunCall \/ MonStart \/ SetStage
  \/ \E k \in 1..3, i \in 1..2 : SkipComp(k, i)
  \/ \E k \in 1..3, i \in 1..2 : SkipDone(k, i)
  \/ \E k \in 1..3, i \in 1..2 : EarlyMark(k, i)
  \/ \E k \in 1..3 : StageInit(k)
  \/ \E k \in 1..3 : RunBegin(k)
  \/ \E k \in 1..3, v \in {"ok", "failed", "noleaf", "interrupted"} : RunEnd(k, v)
  \/ Increment \/ StageFailed \/ RunReturned
  \/ MonKill \/ CleanUp \/ Joined \/ CleanupCrash \/ MonJoin \/ Hang \/ Exit
CompStep ==
  \/ \E k \in 1..3, i \in 1..2, s \in {"finished", "failed", "shutdown"} : CompEnd(k, i, s)
  \/ \E k \in 1..3, i \in 1..2 : CompDone(k, i)

Next == MainStep \/ CompStep \/ Tick \/ Signal
Spec == Init /\ [][Next]_vars
\* every thread keeps running; signals are not obliged to arrive
FairSpec == Spec /\ WF_vars(MainStep) /\ WF_vars(CompStep) /\ WF_vars(Tick)

\* ---------------------------------------------------------------------------------------------- what a poller relies on
DocOK(d) ==
  /\ Es(d) \in {"none", "Initialising", "running", "finished", "failed"}
  /\ Ss(d) \in {"none", "Initialising", "running", "finished", "failed", "component_shutdown"}
  /\ Xs(d) \in {"N/A", "Success", "Failed", "Stopped"}
  /\ Cur(d) \in 0..NS /\ Tp(d) \in 0..Full /\ Sp(d) \in 0..2
TypeOK ==
  /\ DocOK(mem) /\ DocOK(disk)
  /\ ost \in 1..(NS + 1) /\ cst \in 0..NS
  /\ mon \in {"off", "on", "cancelled", "done"}
  /\ code \in {-1, 0, 1, 99, 130}

OwnDoc == own                            \* the document on disk speaks about this run
Done == pc \in {"exited"}

\* 1. the final status is final
FinalIsFinal == [][Done => disk' = disk]_vars
\* 2. a terminal experiment-state comes with an exit status, a completion time stamp comes only with a terminal state
TerminalHasExit == (disk # NoDoc /\ Es(disk) \in Terminal) => Xs(disk) # "N/A"
CompletedOnlyAtEnd == (OwnDoc /\ disk # NoDoc /\ Cmp(disk)) => Es(disk) \in Terminal
\* 3. legal order of experiment-state within a run, terminal states absorbing
LegalOrder ==
  [][(OwnDoc /\ OwnDoc' /\ disk # NoDoc) =>
       \/ Es(disk') = Es(disk)
       \/ Es(disk) = "Initialising" /\ Es(disk') \in {"running", "finished", "failed"}
       \/ Es(disk) = "running" /\ Es(disk') = "finished"]_vars
\* 4. the exit status is written once and never changes
ExitStable == [][(OwnDoc /\ OwnDoc' /\ disk # NoDoc /\ Xs(disk) # "N/A") => Xs(disk') = Xs(disk)]_vars
\* 5. current-stage is the stage the controller runs: it never runs ahead and never decreases; everything before it is over
Shown == own /\ (ticked \/ ~S.restart)      \* current-stage / progress on disk were computed by this run
CurrentStageIsControllers == Shown => Cur(disk) <= cst
CurrentStageMonotone == [][(Shown /\ Shown') => Cur(disk') >= Cur(disk)]_vars
EarlierStagesOver == Shown => \A k \in 1..(Cur(disk) - 1) : AllDone(k)
\* total-progress never decreases -- not so: a stage whose components are all recorded done counts with its whole weight while it
\* is not the controller's stage, and with its finished fraction once it is (named deviation ProgressCanDecrease: a component of
\* the next stage fails before the controller moves on)
ProgressMonotone == [][(Shown /\ Shown') => Tp(disk') >= Tp(disk)]_vars
\* ... but it may count stages that never ran: cleanUp() shuts their components down, the controller records them done and
\* get_stages_finished() then contributes their whole weight (named deviation KilledStagesCountAsComplete)
RECURSIVE SumUpTo(_)
SumUpTo(k) == IF k = 0 THEN 0 ELSE S.w[k] + SumUpTo(k - 1)
NeverRunNotCounted == (Done /\ xit = "failed" /\ Shown) => Tp(disk) <= SumUpTo(cst)
\* 6. the verdict
AllOk == \A c \in Comps : cs[c[1]][c[2]] = "finished"
SuccessConsistent ==
  (Done /\ Xs(disk) = "Success") =>
     /\ Es(disk) = "finished" /\ Cmp(disk) /\ ~Err(disk) /\ Cur(disk) = NS /\ nsig = 0 /\ xit = "none"
     /\ AllOk => (Tp(disk) = Full /\ Sp(disk) = 2 /\ Ss(disk) = "finished")
FailureReflected ==
  Done =>
     /\ xit = "failed" => (Xs(disk) = "Failed" /\ Err(disk) /\ Es(disk) = "finished" /\ Cmp(disk))
     /\ xit = "stopped" => (Xs(disk) = "Stopped" /\ Err(disk) /\ Es(disk) = "finished" /\ Cmp(disk))
     /\ (S.setup # "ok" \/ sigAt[1] = "start") => (Xs(disk) = "Failed" /\ Err(disk) /\ Es(disk) = "failed")
     /\ (xit = "none" /\ S.setup = "ok" /\ sigAt[1] # "start") => Xs(disk) = "Success"
\* a stage failure is reported for the stage that failed
FailedStageIdentified ==
  (Done /\ xit = "failed") => (Cur(disk) = cst /\ Ss(disk) = "failed")
\* a signal always yields Stopped -- not so when it arrives during Setup() (named deviation SignalInSetupReportsFailed)
SignalMeansStopped == (Done /\ nsig > 0) => Xs(disk) = "Stopped"
ExitCodeAgrees == (code \in {0, 1} /\ pc = "exited") => (code = 0 <=> Xs(disk) = "Success")
\* strong form the code does not meet (named deviation EarlyExitStatus): an exit status only next to a terminal state
ExitOnlyWhenTerminal == (OwnDoc /\ disk # NoDoc /\ Xs(disk) # "N/A") => Es(disk) \in Terminal
\* restart: the document of the earlier run is never shown as the state of this one (fails without fix.stale)
NoStaleVerdict == (S.restart /\ own /\ pc \in {"stage_top", "inited", "running", "interrupted", "stage_end", "post_run", "handler"}) => (Xs(disk) = "N/A" /\ ~Cmp(disk))
\* 7. unless a signal arrives where nothing handles it, the final status is written
Unhandled == sigAt[1] \in Unprotected \/ nsig = 2
Termination == <>(pc = "exited" \/ (pc = "dead" /\ code = 130))
AlwaysFinalised == <>(pc = "exited")

\* reachability witnesses (expected to be violated)
WitnessSuccess == ~(Done /\ Xs(disk) = "Success")
WitnessFailed == ~(Done /\ Xs(disk) = "Failed" /\ xit = "failed")
WitnessStopped == ~(Done /\ Xs(disk) = "Stopped")
WitnessSetupFailed == ~(Done /\ Es(disk) = "failed")
WitnessRestartDone == ~(Done /\ S.restart /\ S.start > 1)

\* ---------------------------------------------------------------------------------------------- terminal outcomes
TerminalState == pc \in {"exited", "dead", "hung"} /\ code # -1
Outcome == [sc |-> sc, sigpc |-> sigAt[1], sigst |-> sigAt[2], nsig |-> nsig, code |-> code, pc |-> pc, doc |-> disk]
EmitTerminal == (Emit /\ TerminalState) => PrintT(ToJson(Outcome))
=============================================================================
