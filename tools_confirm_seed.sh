#!/bin/bash
# tools_confirm_seed.sh <worktree> <patchfile> <demo> <seed-id> <property> [tests...]
# Confirms a seeded breaking change independently: demo passes without the patch, fails with it, the named repo tests pass
# with it; then stores it under /verif/seeded/<seed-id>/ and runs the property's quick check against the patched tree.
set -u
WT=$1; PATCH=$(readlink -f $2); DEMO=$3; SID=$4; PROP=$5; shift 5
cd $WT || exit 2
cp $PATCH /tmp/_seed_patch_$SID.diff || exit 2
git checkout -q -- python
git checkout -q --detach $(git -C /repo rev-parse HEAD) || { echo "cannot move worktree to HEAD"; exit 2; }
PYTHONPATH=$WT/python timeout 600 /venv/bin/python -W ignore $DEMO > /tmp/_seed_demo_clean_$SID.log 2>&1; RC_CLEAN=$?
git apply /tmp/_seed_patch_$SID.diff || { echo "patch does not apply"; exit 2; }
PYTHONPATH=$WT/python timeout 600 /venv/bin/python -W ignore $DEMO > /tmp/_seed_demo_patched_$SID.log 2>&1; RC_PATCHED=$?
echo "demo: clean rc=$RC_CLEAN patched rc=$RC_PATCHED"
TESTS_OK=skipped
if [ $# -gt 0 ]; then
  PYTHONPATH=$WT/python timeout 3000 /venv/bin/python -m pytest -q -p no:cacheprovider --timeout=900 "$@" > /tmp/_seed_tests_$SID.log 2>&1; TRC=$?
  tail -1 /tmp/_seed_tests_$SID.log; TESTS_OK=$TRC
fi
mkdir -p /verif/seeded/$SID
cp /tmp/_seed_patch_$SID.diff /verif/seeded/$SID/patch.diff
cp $DEMO /verif/seeded/$SID/
cp /verif/evidence/$PROP.json /tmp/_ev_backup_$PROP.json 2>/dev/null; cd /verif && PYTHONPATH=$WT/python timeout 3000 ./check $PROP --tier quick > /tmp/_seed_check_$SID.log 2>&1; CRC=$?
grep -E "^VIOLATION|tier=" /tmp/_seed_check_$SID.log | head -3
echo "check rc=$CRC"; cp /tmp/_ev_backup_$PROP.json /verif/evidence/$PROP.json 2>/dev/null
cat > /verif/seeded/$SID/confirm.json <<J
{"seed": "$SID", "property": "$PROP", "demo_rc_clean": $RC_CLEAN, "demo_rc_patched": $RC_PATCHED, "repo_tests": "$*", "repo_tests_rc": "$TESTS_OK", "quick_check_rc_on_patched_tree": $CRC}
J
