#!/venv/bin/python
"""Regenerates the seed table of DESIGN.md section 0.6 (between the markers SEED-TABLE-BEGIN / SEED-TABLE-END)
from seeded/<id>/{meta.json,confirm.json,note.json} and seeded/first_built.json (how the check did when the seed arrived)."""
import json, os, re, sys
HERE = os.path.dirname(os.path.abspath(__file__))
SEED = os.path.join(HERE, "seeded")

def key(s):
    m = re.match(r"C(\d+)(?:_r(\d+))?_(\d+)", s)
    return (int(m.group(1)), int(m.group(2) or 1), int(m.group(3)))

def main():
    first = json.load(open(os.path.join(SEED, "first_built.json")))
    rows = []
    for sid in sorted([d for d in os.listdir(SEED) if re.match(r"C\d+", d) and os.path.isdir(os.path.join(SEED, d))], key=key):
        d = os.path.join(SEED, sid)
        meta = {}
        try: meta = json.load(open(os.path.join(d, "meta.json")))
        except Exception: pass
        conf = {}
        try: conf = json.load(open(os.path.join(d, "confirm.json")))
        except Exception: pass
        summ = meta.get("summary") or meta.get("change") or meta.get("description") or ""
        if isinstance(summ, (list, dict)): summ = json.dumps(summ)
        summ = re.sub(r"\s+", " ", summ).replace("|", "/")
        if len(summ) > 170: summ = summ[:170] + "…"
        rc = conf.get("quick_check_rc_on_patched_tree")
        note = {}
        try: note = json.load(open(os.path.join(d, "note.json")))
        except Exception: pass
        if note.get("neutralised") and rc == 0:
            res = "exit 0: behaviourally neutralised by a later fix (note.json)"
        elif os.path.exists(os.path.join(d, "note.json")) and conf.get("demo_rc_patched") == 0:
            res = "demo passes at HEAD: neutralised by a later fix"
        elif rc == 1: res = "exit 1 (VIOLATION)"
        else: res = "exit %s" % rc
        by = first.get(sid, {}).get("caught_by")
        if by: res += " by %s" % by
        rows.append("| %s | %s | %s | %s |" % (sid, summ, res, first.get(sid, {}).get("first", "?")))
    table = "| seed | change (abridged) | quick check on the patched tree | as first built |\n|---|---|---|---|\n" + "\n".join(rows) + "\n"
    p = os.path.join(HERE, "DESIGN.md")
    s = open(p).read()
    if "<!-- SEED-TABLE-BEGIN -->" in s:
        s = re.sub(r"<!-- SEED-TABLE-BEGIN -->.*?<!-- SEED-TABLE-END -->", lambda m: "<!-- SEED-TABLE-BEGIN -->\n" + table + "<!-- SEED-TABLE-END -->", s, flags=re.S)
        open(p, "w").write(s)
    else:
        open(os.path.join(HERE, "out", "seed_table.md"), "w").write(table)
    caught = sum(1 for r in rows if "exit 1" in r); neut = sum(1 for r in rows if "neutralised by a later" in r.split("|")[3] and "exit 1" not in r.split("|")[3])
    print("%d seeds: %d caught, %d neutralised, %d other" % (len(rows), caught, neut, len(rows) - caught - neut))
    for r in rows:
        if "exit 1" not in r and "neutralised by a later" not in r.split("|")[3]: print("  NOT CAUGHT:", r.split("|")[1].strip(), r.split("|")[3])

if __name__ == "__main__":
    main()
